------------------------------- MODULE Big -------------------------------
(* Naturals of arbitrary size as canonical little-endian byte sequences      *)
(* (<<>> is 0, no most-significant zero byte), and integers as               *)
(* [neg |-> BOOLEAN, mag |-> bytes] with zero canonically non-negative.      *)
(* TLC's integers are 32-bit; everything catii does near 2^32 .. 2^64        *)
(* (fit_dtype thresholds, INDX words, uint32 extremes) is stated over these. *)
EXTENDS Integers, Sequences

Byte == 0..255

IsCanon(a) == Len(a) = 0 \/ a[Len(a)] # 0

RECURSIVE Canon(_)
Canon(a) == IF Len(a) > 0 /\ a[Len(a)] = 0 THEN Canon(SubSeq(a, 1, Len(a) - 1)) ELSE a

\* small non-negative TLC integer -> bytes
RECURSIVE FromNat(_)
FromNat(n) == IF n = 0 THEN <<>> ELSE <<n % 256>> \o FromNat(n \div 256)

\* bytes -> TLC integer (only meaningful below 2^31)
RECURSIVE ToNat(_)
ToNat(a) == IF Len(a) = 0 THEN 0 ELSE a[1] + 256 * ToNat(Tail(a))
FitsInt(a) == Len(a) <= 3 \/ (Len(a) = 4 /\ a[4] < 128)

BLess(a, b) ==
  IF Len(a) # Len(b) THEN Len(a) < Len(b)
  ELSE \E i \in 1..Len(a) : a[i] < b[i] /\ \A j \in (i+1)..Len(a) : a[j] = b[j]
BLeq(a, b) == a = b \/ BLess(a, b)

RECURSIVE Pow(_,_)
Pow(b, k) == IF k = 0 THEN 1 ELSE b * Pow(b, k - 1)

\* 2^k as bytes
Pow2(k) == [i \in 1..(k \div 8 + 1) |-> IF i = k \div 8 + 1 THEN Pow(2, k % 8) ELSE 0]
\* 2^k - 1 as bytes
Pow2m1(k) == Canon([i \in 1..(k \div 8 + 1) |-> IF i = k \div 8 + 1 THEN Pow(2, k % 8) - 1 ELSE 255])

\* a + 1, a - 1 (a > 0)
RECURSIVE Inc(_)
Inc(a) == IF Len(a) = 0 THEN <<1>>
          ELSE IF a[1] < 255 THEN <<a[1] + 1>> \o Tail(a) ELSE <<0>> \o Inc(Tail(a))
RECURSIVE DecRaw(_)
DecRaw(a) == IF a[1] > 0 THEN <<a[1] - 1>> \o Tail(a) ELSE <<255>> \o DecRaw(Tail(a))
Dec(a) == Canon(DecRaw(a))

\* addition of two byte sequences
RECURSIVE AddC(_,_,_)
AddC(a, b, c) ==
  IF Len(a) = 0 /\ Len(b) = 0 THEN (IF c = 0 THEN <<>> ELSE <<c>>)
  ELSE LET x == IF Len(a) = 0 THEN 0 ELSE a[1]
           y == IF Len(b) = 0 THEN 0 ELSE b[1]
           s == x + y + c
       IN <<s % 256>> \o AddC(IF Len(a) = 0 THEN a ELSE Tail(a), IF Len(b) = 0 THEN b ELSE Tail(b), s \div 256)
BAdd(a, b) == AddC(a, b, 0)

\* multiplication by a small natural m (m < 2^20)
RECURSIVE MulC(_,_,_)
MulC(a, m, c) ==
  IF Len(a) = 0 THEN FromNat(c)
  ELSE LET s == a[1] * m + c IN <<s % 256>> \o MulC(Tail(a), m, s \div 256)
BMulSmall(a, m) == Canon(MulC(a, m, 0))

\* fixed-width little-endian encoding in w bytes (value must fit)
LE(a, w) == [i \in 1..w |-> IF i <= Len(a) THEN a[i] ELSE 0]
FitsBytes(a, w) == Len(a) <= w

\* signed integers
Z(neg, mag) == [neg |-> neg, mag |-> mag]
ZZero == Z(FALSE, <<>>)
ZIsNeg(z) == z.neg /\ Len(z.mag) > 0
ZLess(x, y) ==
  IF ZIsNeg(x) THEN (IF ZIsNeg(y) THEN BLess(y.mag, x.mag) ELSE TRUE)
  ELSE (IF ZIsNeg(y) THEN FALSE ELSE BLess(x.mag, y.mag))
ZLeq(x, y) == (ZIsNeg(x) = ZIsNeg(y) /\ x.mag = y.mag) \/ ZLess(x, y)
=============================================================================
