------------------------------ MODULE XCubeAlg ------------------------------
(* Algorithm layer of the array cube's addressing (xcubes.py _set_strides /     *)
(* strided_dims): every dimension array is cast to `mintype` - the narrowest of  *)
(* uint8/16/32 whose maximum is at least the number of cells - multiplied by its *)
(* stride and summed; bincount over that flat coordinate is the contingency      *)
(* table.  Checked here: for every shape of a family that straddles the          *)
(* 255/256 and 65535/65536 boundaries, and every cell, the flat coordinate       *)
(* computed through the cast equals the row-major index (so no category id       *)
(* wraps and no two cells collide).                                              *)
EXTENDS Integers, Sequences, FiniteSets, FiniteSetsExt, TLC
CONSTANT Shapes

RECURSIVE Prod(_)
Prod(s) == IF Len(s) = 0 THEN 1 ELSE Head(s) * Prod(Tail(s))
\* multipliers: stride of dimension i = product of the later extents
Stride(s, i) == Prod(SubSeq(s, i + 1, Len(s)))
\* mintype: first of uint8, uint16, uint32 with maxmult <= its maximum, maxmult = total number of cells
Bits(s) == LET mm == Prod(s) IN IF mm <= 255 THEN 8 ELSE IF mm <= 65535 THEN 16 ELSE 32
RECURSIVE Pow2(_)
Pow2(k) == IF k = 0 THEN 1 ELSE 2 * Pow2(k - 1)
Cast(v, bits) == IF bits = 32 THEN v ELSE v % Pow2(bits)          \* astype(mintype) of a non-negative category id
Flat(s, c) == LET RECURSIVE F(_) F(i) == IF i > Len(s) THEN 0 ELSE Cast(c[i], Bits(s)) * Stride(s, i) + F(i + 1) IN F(1)
RowMajor(s, c) == LET RECURSIVE F(_) F(i) == IF i > Len(s) THEN 0 ELSE c[i] * Stride(s, i) + F(i + 1) IN F(1)

VARIABLES s, c
vars == <<s, c>>
\* one boundary cell per dimension is enough to exhibit a wrap: the last category of every dimension, and the first
Corners(sh) == {[i \in 1..Len(sh) |-> IF i \in S THEN sh[i] - 1 ELSE 0] : S \in SUBSET (1..Len(sh))}
Init == s \in Shapes /\ c \in Corners(s)
Next == UNCHANGED vars
Spec == Init /\ [][Next]_vars
AddressIsRowMajor == Flat(s, c) = RowMajor(s, c) /\ Flat(s, c) < Prod(s)
=============================================================================
