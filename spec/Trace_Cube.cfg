SPECIFICATION TSpec
