SPECIFICATION Spec
CONSTANTS
 Vals <- ValsQuick
 RowVals <- RowValsQuick
 MaxEnts = 1
 Arities <- AritiesQuick
INVARIANT EmitReadCase
CONSTRAINT HeaderOnly
