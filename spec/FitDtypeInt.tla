---------------------------- MODULE FitDtypeInt ----------------------------
(* C19, unbounded: the same contract (Narrowest) and algorithm layer (Ladder)  *)
(* as FitDtype.tla, but over mathematical integers, for the symbolic model      *)
(* checker Apalache: LadderIsNarrowest is checked for ALL (max, min) of the     *)
(* property's domain at once (SMT), not only for the partition points.          *)
(* FitDtype.tla (byte sequences, TLC) remains the module the traces bind to;    *)
(* MC_FitDtype checks both agree with the code's ladder on the partition.       *)
EXTENDS Integers

VARIABLES
  \* @type: Int;
  mx,
  \* @type: Int;
  mn

P7 == 128
P8 == 256
P15 == 32768
P16 == 65536
P31 == 2147483648
P32 == 4294967296
P63 == 9223372036854775808
P64 == 18446744073709551616

EffMin == IF mx < 0 /\ mn = 0 THEN mx ELSE mn
Signed == EffMin < 0

\* half-range of the signed k-bit type, full range of the unsigned one
InSigned(z, h) == -h <= z /\ z < h
InUnsigned(z, f) == 0 <= z /\ z < f

InDomain ==
  /\ mn <= 0
  /\ (mn <= mx \/ (mx < 0 /\ mn = 0))
  /\ IF Signed THEN InSigned(EffMin, P63) /\ InSigned(mx, P63) ELSE InUnsigned(mx, P64)

FitsS(h) == InSigned(EffMin, h) /\ InSigned(mx, h)
Narrowest ==
  IF Signed
  THEN (IF FitsS(P7) THEN "int8" ELSE IF FitsS(P15) THEN "int16" ELSE IF FitsS(P31) THEN "int32" ELSE "int64")
  ELSE (IF InUnsigned(mx, P8) THEN "uint8" ELSE IF InUnsigned(mx, P16) THEN "uint16"
        ELSE IF InUnsigned(mx, P32) THEN "uint32" ELSE "uint64")

\* iindexes.fit_dtype, branch by branch
Ladder ==
  LET minval == EffMin IN
  IF minval < 0 THEN
       IF minval < -P31 THEN "int64"
       ELSE IF mx > P31 - 1 THEN "int64"
       ELSE IF minval < -P15 THEN "int32"
       ELSE IF mx > P15 - 1 THEN "int32"
       ELSE IF minval < -P7 THEN "int16"
       ELSE IF mx > P7 - 1 THEN "int16"
       ELSE "int8"
  ELSE IF mx >= P32 THEN "uint64"
       ELSE IF mx >= P16 THEN "uint32"
       ELSE IF mx >= P8 THEN "uint16"
       ELSE "uint8"

Init == mx \in Int /\ mn \in Int
Next == UNCHANGED <<mx, mn>>
LadderIsNarrowest == InDomain => Ladder = Narrowest
=============================================================================
