SPECIFICATION TSpec
CONSTANTS
  Family = {}
  NCells = 1
  Kind = "ccube"
  LabelRule = "prepend"
CHECK_DEADLOCK FALSE
