SPECIFICATION TSpec
CONSTANTS
  Family = {}
  NCells = 1
  Kind = "ccube"
  LabelRule = "prepend"
  LabelStore = "local"
CHECK_DEADLOCK FALSE
