SPECIFICATION Spec
CONSTANTS
 Vals <- ValsAll
 RowVals <- RowValsAll
 MaxEnts = 1
 Arities <- AritiesQuick
INVARIANT RoundTrip
INVARIANT SizeField
INVARIANT TornRejected
INVARIANT CompleteAccepted
INVARIANT SaverNarrowest
