-------------------------- MODULE Trace_FitDtype --------------------------
(* L3: every recorded call fit_dtype(max, min) -> dtype name of the real     *)
(* code is validated against the contract FitDtype!Narrowest.                *)
EXTENDS FitDtype, Json, IOUtils, Sequences

Trace == ndJsonDeserialize(IOEnv.TRACE_FILE)

VARIABLES i, verdict
tvars == <<i, verdict>>

ToZ(r) == Z(r.neg, r.mag)

Verdict(e) ==
  LET a == ToZ(e.mx)  b == ToZ(e.mn) IN
  IF ~IsCanon(a.mag) \/ ~IsCanon(b.mag) THEN "bad-event"
  ELSE IF ~InDomain(a, b) THEN "out-of-domain"
  ELSE IF e.exc THEN "C19:raised"
  ELSE IF e.dtype = Narrowest(a, b) THEN "ok"
  ELSE IF \E s \in BOOLEAN, k \in Widths : e.dtype = Name(s, k) /\ s = Signed(a, b) /\ Fits(s, k, a, b)
       THEN "C19:wider-than-needed"
  ELSE IF \E s \in BOOLEAN, k \in Widths : e.dtype = Name(s, k) /\ s # Signed(a, b)
       THEN "C19:wrong-signedness"
  ELSE "C19:too-narrow"

TInit == i \in 1..Len(Trace) /\ verdict = "init"
TNext == /\ verdict = "init"
         /\ verdict' = Verdict(Trace[i])
         /\ PrintT(<<"V", Trace[i].tid, verdict'>>)
         /\ UNCHANGED i
TSpec == TInit /\ [][TNext]_tvars
=============================================================================
