SPECIFICATION Spec
CONSTANTS MaxRows1 = 2
 MaxRows2 = 1
 Snapshot = FALSE
INVARIANT Refines
