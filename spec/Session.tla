------------------------------- MODULE Session -------------------------------
(* C17 (history part): a session in which two cubes and three aggregate-       *)
(* function objects are used in any order and combination.                     *)
(*                                                                             *)
(* Contract: the arrays returned for function f on cube c are G(c, f), a       *)
(* function of the arguments alone.  The algorithm layer keeps what the code   *)
(* keeps between calls: every function object has a scratch area (tracing      *)
(* counters, and - in a wrong implementation - cached regions); calculate      *)
(* allocates fresh regions per call.  The generator configuration prints       *)
(* random sessions for the harness to replay on the real cubes.                *)
EXTENDS Integers, Sequences, FiniteSets, TLC, Json

CONSTANTS Cubes, Funcs, MaxCalls, MaxFuncs

G(c, f) == 100 * c + f                 \* stands for the contract value of (cube, function)

VARIABLES scratch,   \* per function object: number of fills traced so far (diagnostic state the code keeps)
          out,       \* outputs of the latest call: sequence of values
          call,      \* the latest call [c, fs]
          hist       \* all calls so far (generator)
vars == <<scratch, out, call, hist>>

\* sequences of 1..MaxFuncs function objects; the same object may appear more than once in a list
RECURSIVE Lists(_)
Lists(k) == IF k = 0 THEN {<<>>} ELSE {Append(l, f) : l \in Lists(k - 1), f \in Funcs}
FuncLists == UNION {Lists(k) : k \in 1..MaxFuncs}

Init == scratch = [f \in Funcs |-> 0] /\ out = <<>> /\ call = [c |-> 0, fs |-> <<>>] /\ hist = <<>>

\* calculate(c, fs): regions are allocated per call, filled, reduced; scratch counters advance
Calculate(c, fs) ==
  /\ Len(hist) < MaxCalls
  /\ LET regions == [j \in DOMAIN fs |-> G(c, fs[j])]          \* fresh regions, one per function
     IN out' = regions
  /\ scratch' = [f \in Funcs |-> IF \E j \in DOMAIN fs : fs[j] = f THEN scratch[f] + 1 ELSE scratch[f]]
  /\ call' = [c |-> c, fs |-> fs]
  /\ hist' = Append(hist, [c |-> c, fs |-> fs])

Next == \E c \in Cubes, fs \in FuncLists : Calculate(c, fs)
Spec == Init /\ [][Next]_vars

\* every output equals the contract value of its own arguments, whatever happened before
Pure == \A j \in DOMAIN out : out[j] = G(call.c, call.fs[j])
Emit == (Len(hist) = MaxCalls) => PrintT(<<"BEH", ToJson(hist)>>)
=============================================================================
