SPECIFICATION Spec
CONSTANTS T = 4
 P = 2
 F = 2
 Serial = FALSE
 FaultSets <- AllFaultSets
INVARIANT ScheduleIndependent
INVARIANT WriteSetsDisjoint
INVARIANT RaisesIffFaultConsulted
INVARIANT ConsultedAtMostOnce
INVARIANT SecondRunClean
PROPERTY Terminates
