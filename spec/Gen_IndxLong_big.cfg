SPECIFICATION Spec
CONSTANT Big2 = TRUE
INVARIANT Emit
INVARIANT SameAsEncode
