SPECIFICATION Spec
CONSTANTS Cubes = {1, 2}
 Funcs = {1, 2, 3}
 MaxCalls = 6
 MaxFuncs = 3
INVARIANT Pure
INVARIANT Emit
