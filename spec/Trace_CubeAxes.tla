-------------------------- MODULE Trace_CubeAxes --------------------------
(* L3 for the scaffold: what the real cubes expose (scaffold_shape, shape,     *)
(* scaffold_size, product()) and where the real count() placed every          *)
(* sub-cube, judged against CubeAxes.  The dimensions of a recorded cube      *)
(* carry data that names its own position (the category of cell [r, k..] is   *)
(* the row-major number of k), so the harness can read off WHICH slices a     *)
(* block of the result was computed from; the specification says which it     *)
(* must be.  Clauses owned by X00 concern the organisation (order and labels  *)
(* of the tasks), which no caller observes: they are reported as notes.       *)
EXTENDS CubeAxes, Json, IOUtils

Trace == ndJsonDeserialize(IOEnv.TRACE_FILE)

VARIABLES i, verdict
tvars == <<i, verdict>>

Labels(T) == [k \in 1..Len(T) |-> [d \in 1..Len(T[k]) |-> T[k][d].label]]

Verdict(e) ==
  LET x == e.extras
      T == TasksOf(x, e.kind, "prepend")
      sc == ScaffoldShape(x)
  IN
  IF e.exc THEN "C13:raised"
  ELSE IF e.scaffold_shape # sc \/ e.shape # sc \o e.ishape THEN "C13:scaffold-is-not-the-extra-axes-in-order"
  ELSE IF {p[1] : p \in {e.placed[k] : k \in 1..Len(e.placed)}} # IndexSpace(sc) THEN "C13:blocks-missing"
  ELSE IF \E k \in 1..Len(e.placed) : e.placed[k][2] # Split(x, e.placed[k][1]) THEN "C13:block-holds-other-slices"
  ELSE IF e.scaffold_size # Prod(sc) \/ Len(e.labels) # Prod(sc) THEN "X00:task-count"
  ELSE IF {e.labels[k] : k \in 1..Len(e.labels)} # {Labels(T)[k] : k \in 1..Len(T)} THEN "X00:task-labels"
  ELSE IF e.labels # Labels(T) THEN "X00:task-order"
  ELSE IF e.kind = "ccube" /\ e.sels # e.labels THEN "X00:label-names-other-data"
  ELSE "ok"

TInit == i \in 1..Len(Trace) /\ verdict = "init" /\ ex = <<>> /\ tasks = <<>> /\ region = <<>> /\ pc = <<>> /\ oob = FALSE /\ shared = <<>> /\ view = <<>>
TNext == /\ verdict = "init"
         /\ verdict' = Verdict(Trace[i])
         /\ PrintT(<<"V", Trace[i].tid, verdict'>>)
         /\ UNCHANGED <<i, vars>>
TSpec == TInit /\ [][TNext]_<<tvars, vars>>
=============================================================================
