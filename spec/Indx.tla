-------------------------------- MODULE Indx --------------------------------
(* C10 / C11 / C12: the INDX binary file format of indxio.py.                 *)
(*                                                                            *)
(* Data: x = [arity, common, ents] with ents a sequence (dict order) of       *)
(*   [c |-> <<coordinate, ...>>, r |-> <<row id, ...>>]; coordinates, the     *)
(*   common value and row ids are Big naturals (canonical LE byte sequences), *)
(*   so 2^63-1 and 2^32-1 are ordinary values.                                *)
(* Encode  : the byte sequence the class docstring describes (independent     *)
(*           writer), for any index word size iws and row-id word size rws.   *)
(* Decode  : an independent reader written from the same description.         *)
(* Accepts : the acceptance logic of IndxIO.load (magic, version, 8-byte size,*)
(*           file at least 16 + size bytes long), used for torn files.        *)
EXTENDS Big, FiniteSets, TLC

Magic == <<73, 78, 68, 88, 48, 48, 48, 49>>      \* "INDX" "0001"
WordSizes == {1, 2, 4, 8}

RECURSIVE Cat(_)
Cat(ss) == IF Len(ss) = 0 THEN <<>> ELSE Head(ss) \o Cat(Tail(ss))

\* largest stored index value: every coordinate and the common value
AllIndexVals(x) == {x.common} \cup UNION {{x.ents[e].c[d] : d \in DOMAIN x.ents[e].c} : e \in DOMAIN x.ents}
MaxOf(S) == CHOOSE v \in S : \A w \in S : BLeq(w, v)
\* the narrowest documented word size that holds every index value (ties to FitDtype.Narrowest, unsigned)
Narrow(v) == CHOOSE w \in WordSizes : FitsBytes(v, w) /\ \A u \in WordSizes : u < w => ~FitsBytes(v, u)
SaverIws(x) == Narrow(MaxOf(AllIndexVals(x)))

AllRows(x) == UNION {{x.ents[e].r[k] : k \in DOMAIN x.ents[e].r} : e \in DOMAIN x.ents}
RwsOK(x, rws) == /\ \A v \in AllRows(x) : FitsBytes(v, rws)
                 /\ \A e \in DOMAIN x.ents : FitsBytes(FromNat(Len(x.ents[e].r)), rws)
IwsOK(x, iws) == \A v \in AllIndexVals(x) : FitsBytes(v, iws)

Payload(x, ab, iws, rws) ==
  LET n == Len(x.ents) IN
  <<ab>> \o LE(FromNat(n), 4) \o <<iws>> \o LE(x.common, iws)
  \o Cat([e \in 1..n |-> Cat([d \in 1..Len(x.ents[e].c) |-> LE(x.ents[e].c[d], iws)])])
  \o <<rws>>
  \o Cat([e \in 1..n |-> LE(FromNat(Len(x.ents[e].r)), rws)])
  \o Cat([e \in 1..n |-> Cat([k \in 1..Len(x.ents[e].r) |-> LE(x.ents[e].r[k], rws)])])

\* ab = the "index dimensions" byte: the arity; with zero entries the description leaves it open
Encode(x, ab, iws, rws) ==
  LET p == Payload(x, ab, iws, rws) IN Magic \o LE(FromNat(Len(p)), 8) \o p

\* the exact payload length as a Big natural, without building the payload (row counts may be huge):
\* rowcounts is the sequence of per-entry row counts as Big naturals
PayloadLen(arity, n, iws, rws, rowcounts) ==
  LET fixed == FromNat(1 + 4 + 1 + iws + n * arity * iws + 1 + n * rws)
      RECURSIVE SumB(_)
      SumB(s) == IF Len(s) = 0 THEN <<>> ELSE BAdd(Head(s), SumB(Tail(s)))
  IN BAdd(fixed, BMulSmall(SumB(rowcounts), rws))

\* ---- independent reader -------------------------------------------------------------------
Err == [ok |-> FALSE]
Word(b, off, w) == Canon(SubSeq(b, off + 1, off + w))          \* w bytes at 0-based offset off
RECURSIVE SumTo(_,_)
SumTo(f, k) == IF k = 0 THEN 0 ELSE f[k] + SumTo(f, k - 1)

Decode(b) ==
  IF Len(b) < 16 \/ SubSeq(b, 1, 8) # Magic THEN Err
  ELSE LET sz == Word(b, 8, 8) IN
  IF ~FitsInt(sz) \/ Len(b) < 16 + ToNat(sz) THEN Err
  ELSE LET p == SubSeq(b, 17, 16 + ToNat(sz)) IN
  IF Len(p) < 7 THEN Err
  ELSE LET ab == p[1]
           n == ToNat(Word(p, 1, 4))
           iws == p[6] IN
  IF iws \notin WordSizes \/ Len(p) < 6 + iws + n * ab * iws + 1 THEN Err
  ELSE LET common == Word(p, 6, iws)
           o1 == 6 + iws
           coords == [e \in 1..n |-> [d \in 1..ab |-> Word(p, o1 + ((e - 1) * ab + (d - 1)) * iws, iws)]]
           o2 == o1 + n * ab * iws
           rws == p[o2 + 1] IN
  IF rws \notin WordSizes \/ Len(p) < o2 + 1 + n * rws THEN Err
  ELSE LET lens == [e \in 1..n |-> ToNat(Word(p, o2 + 1 + (e - 1) * rws, rws))]
           o3 == o2 + 1 + n * rws IN
  IF Len(p) < o3 + SumTo(lens, n) * rws THEN Err
  ELSE [ok |-> TRUE, ab |-> ab, iws |-> iws, rws |-> rws, common |-> common,
        ents |-> [e \in 1..n |-> [c |-> coords[e],
                                  r |-> [k \in 1..lens[e] |-> Word(p, o3 + (SumTo(lens, e - 1) + (k - 1)) * rws, rws)]]]]

SameData(d, x) == d.ok /\ d.common = x.common /\ d.ents = x.ents

\* ---- acceptance logic of IndxIO.load on a (possibly torn) file --------------------------------
\* f.read(4) magic, f.read(4) version, struct.unpack("<Q", f.read(8)), mmap(fileno, 16 + size)
Accepts(b) ==
  /\ Len(b) >= 4 /\ SubSeq(b, 1, 4) = SubSeq(Magic, 1, 4)
  /\ Len(b) >= 8 /\ SubSeq(b, 5, 8) = SubSeq(Magic, 5, 8)
  /\ Len(b) >= 16
  /\ LET sz == Word(b, 8, 8) IN FitsInt(sz) /\ Len(b) >= 16 + ToNat(sz)
=============================================================================
