-------------------------------- MODULE Agg --------------------------------
(* Contract layer for cube aggregation (C02, C03, C04, C05, C13, C14, C18):   *)
(* what every cell of every aggregate contains, computed directly from the    *)
(* rows that fall in the cell.  Nothing here knows about inverted indexes,    *)
(* common values, margins, strides or bincount.                               *)
(*                                                                            *)
(* A problem instance `e` (one sub-cube: one-axis dimensions) is a record     *)
(*   n, dims (ND sequences of n categories), ishape (extents),                *)
(*   K (fact columns, 0 = no fact), vals[r][k], fvalid[r][k],                 *)
(*   wkind ("none" | "scalar" | "array"), w[r], wvalid[r],                    *)
(*   ignore (missing policy), func, p (quantile probability).                 *)
(* Values are exact rationals (Rat.tla).                                      *)
EXTENDS Rat, SequencesExt, TLC

RowSet(e) == 1..e.n
ND(e) == Len(e.dims)

\* rows whose category on every dimension equals the cell's coordinates
Rows(e, cell) == {r \in RowSet(e) : \A d \in 1..ND(e) : e.dims[d][r] = cell[d]}

W(e, r) == IF e.wkind = "none" THEN ROne ELSE e.w[r]
WValid(e, r) == e.wkind = "none" \/ e.wvalid[r]
FValid(e, r, k) == k = 0 \/ e.fvalid[r][k]
X(e, r, k) == e.vals[r][k]

\* rows of the cell that are valid in fact column k *and* in the weight
Valid(e, cell, k) == {r \in Rows(e, cell) : FValid(e, r, k) /\ WValid(e, r)}

\* ---- the missing-cell rule (C04) --------------------------------------------------------------
MissingBy(e, RR, V) == IF e.ignore THEN V = {} ELSE (V = {} \/ V # RR)

WSum(e, V) == RSum(V, LAMBDA r : W(e, r))
WXSum(e, V, k) == RSum(V, LAMBDA r : RMul(W(e, r), X(e, r, k)))

\* ---- shared aggregates (C02, C03): [miss |-> BOOLEAN, val |-> rational] ------------------------
Count(e, cell) ==
  LET RR == Rows(e, cell) IN
  IF e.wkind = "none" THEN [miss |-> RR = {}, val |-> R(Cardinality(RR))]
  ELSE LET V == Valid(e, cell, 0) IN [miss |-> MissingBy(e, RR, V), val |-> WSum(e, V)]

ValidCount(e, cell, k) ==
  LET RR == Rows(e, cell)  V == Valid(e, cell, k) IN [miss |-> MissingBy(e, RR, V), val |-> WSum(e, V)]

Sum(e, cell, k) ==
  LET RR == Rows(e, cell)  V == Valid(e, cell, k) IN [miss |-> MissingBy(e, RR, V), val |-> WXSum(e, V, k)]

Mean(e, cell, k) ==
  LET RR == Rows(e, cell)  V == Valid(e, cell, k)  ws == WSum(e, V) IN
  IF MissingBy(e, RR, V) \/ ws[1] = 0 THEN [miss |-> TRUE, val |-> RZero]
  ELSE [miss |-> FALSE, val |-> RDiv(WXSum(e, V, k), ws)]

\* ---- array-cube-only statistics (C18) ----------------------------------------------------------
\* variance: unweighted sum (x - m)^2 / (n - 1); weighted sum w (x - m_w)^2 / sum w * n / (n - 1)
Variance(e, cell, k) ==
  LET RR == Rows(e, cell)  V == Valid(e, cell, k)  nn == Cardinality(V)  ws == WSum(e, V) IN
  IF MissingBy(e, RR, V) \/ nn < 2 \/ ws[1] = 0 THEN [miss |-> TRUE, val |-> RZero]
  ELSE LET m == RDiv(WXSum(e, V, k), ws)
           ss == RSum(V, LAMBDA r : RMul(W(e, r), RMul(RSub(X(e, r, k), m), RSub(X(e, r, k), m))))
       IN [miss |-> FALSE, val |-> RMul(RDiv(ss, ws), <<nn, nn - 1>>)]

\* all valid weights zero: 0/0, mathematically undefined - the property does not say, so it is not compared
VarianceUndefined(e, cell, k) ==
  LET RR == Rows(e, cell)  V == Valid(e, cell, k) IN
  ~MissingBy(e, RR, V) /\ Cardinality(V) >= 2 /\ WSum(e, V)[1] = 0

SortedVals(e, V, k) == SortSeq(SetToSeq(V), LAMBDA a, b : RLess(X(e, a, k), X(e, b, k)))

\* unweighted quantile by linear interpolation: h = (n - 1) p
Quantile(e, cell, k) ==
  LET RR == Rows(e, cell)  V == Valid(e, cell, k)  nn == Cardinality(V) IN
  IF MissingBy(e, RR, V) THEN [miss |-> TRUE, val |-> RZero]
  ELSE LET s == SortedVals(e, V, k)
           h == RMul(R(nn - 1), e.p)
           lo == RFloor(h)
           hi == IF lo + 1 > nn - 1 THEN nn - 1 ELSE lo + 1
           fr == RSub(h, R(lo))
           xlo == X(e, s[lo + 1], k)  xhi == X(e, s[hi + 1], k)
       IN [miss |-> FALSE, val |-> RAdd(xlo, RMul(fr, RSub(xhi, xlo)))]

\* weighted quantile: only the missing rule and the range of the valid values are specified
MinVal(e, V, k) == CHOOSE x \in {X(e, r, k) : r \in V} : \A y \in {X(e, r, k) : r \in V} : RLeq(x, y)
MaxVal(e, V, k) == CHOOSE x \in {X(e, r, k) : r \in V} : \A y \in {X(e, r, k) : r \in V} : RLeq(y, x)
Extreme(e, cell, k, isMax) ==
  LET RR == Rows(e, cell)  V == Valid(e, cell, k) IN
  IF MissingBy(e, RR, V) THEN [miss |-> TRUE, val |-> RZero]
  ELSE [miss |-> FALSE, val |-> IF isMax THEN MaxVal(e, V, k) ELSE MinVal(e, V, k)]

\* covariance entry (k, k2). ignore: complete rows only (valid in every column and the weight);
\* propagate: missing iff column k or k2 (or the weight) has a missing row in the cell.
Complete(e, cell) == {r \in Rows(e, cell) : WValid(e, r) /\ \A k \in 1..e.K : e.fvalid[r][k]}
CovRows(e, cell, k, k2) ==
  LET RR == Rows(e, cell) IN
  IF e.ignore THEN [miss |-> Complete(e, cell) = {}, V |-> Complete(e, cell)]
  ELSE LET V == {r \in RR : WValid(e, r) /\ e.fvalid[r][k] /\ e.fvalid[r][k2]} IN [miss |-> V = {} \/ V # RR, V |-> V]
CovOf(e, V, k, k2) ==
  LET ws == WSum(e, V)
      mk == RDiv(WXSum(e, V, k), ws)   mk2 == RDiv(WXSum(e, V, k2), ws)
      ss == RSum(V, LAMBDA r : RMul(W(e, r), RMul(RSub(X(e, r, k), mk), RSub(X(e, r, k2), mk2))))
      w2 == RSum(V, LAMBDA r : RMul(W(e, r), W(e, r)))
  IN IF e.wkind = "none" THEN RDiv(ss, R(Cardinality(V) - 1))
     ELSE RDiv(ss, RSub(ws, RDiv(w2, ws)))
\* defined = the textbook value exists (>= 2 rows, positive total weight, non-degenerate normaliser)
CovDefined(e, V) ==
  /\ Cardinality(V) >= 2
  /\ LET ws == WSum(e, V) IN ws[1] > 0 /\ (e.wkind = "none" \/ RSub(ws, RDiv(RSum(V, LAMBDA r : RMul(W(e, r), W(e, r))), ws))[1] > 0)

\* ---- walk (C14): what callbacks must be handed ---------------------------------------------------
\* dims here also carry the common value: e.commons[d]
Uncommon(e, d) == {e.dims[d][r] : r \in RowSet(e)} \ {e.commons[d]}
RECURSIVE TuplesOver(_)
TuplesOver(ss) == IF Len(ss) = 0 THEN {<<>>} ELSE {<<x>> \o t : x \in Head(ss), t \in TuplesOver(Tail(ss))}
WalkCoords(e) == {c \in TuplesOver([d \in 1..ND(e) |-> Uncommon(e, d) \cup {-1}]) : \E d \in 1..ND(e) : c[d] # -1}
WalkRows(e, c) == {r \in RowSet(e) : \A d \in 1..ND(e) : c[d] = -1 \/ e.dims[d][r] = c[d]}
=============================================================================
