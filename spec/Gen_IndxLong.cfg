SPECIFICATION Spec
CONSTANT Big2 = FALSE
INVARIANT Emit
INVARIANT SameAsEncode
