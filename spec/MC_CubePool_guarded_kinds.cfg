SPECIFICATION Spec
CONSTANTS T = 5
 P = 2
 F = 1
 Guarded = TRUE
 Kinds = {"exception", "base", "stop"}
 Serial = FALSE
 FaultSets <- UpToTwoFaults
INVARIANT ScheduleIndependent
INVARIANT WriteSetsDisjoint
INVARIANT RaisesIffFaultConsulted
INVARIANT ConsultedAtMostOnce
INVARIANT SecondRunClean
PROPERTY Terminates
