-------------------------- MODULE Trace_SetKernels --------------------------
(* L3: every recorded call of a kernel / wrapper of the rebuilt              *)
(* set_operations.pyx is validated against the contract of SetKernels.tla.   *)
(* Values are ranks in the sorted table of all uint32 values of the batch.   *)
(* Events carry oob (bounds-checked build raised IndexError) and asan        *)
(* (AddressSanitizer reported an access error during the call): C09 clauses. *)
EXTENDS SetKernels, Json, IOUtils, TLC

Trace == ndJsonDeserialize(IOEnv.TRACE_FILE)

VARIABLES i, verdict
tvars == <<i, verdict>>

Opt(r) == [none |-> r.none, v |-> r.v]

InputsOK(e) ==
  CASE e.kind = "kernel"  -> StrictlyInc(e.A) /\ StrictlyInc(e.B)
    [] e.kind = "wrapper" -> StrictlyInc(e.a.v) /\ StrictlyInc(e.b.v)
    [] OTHER -> \A k \in DOMAIN e.L : StrictlyInc(e.L[k])

Verdict(e) ==
  IF ~InputsOK(e) THEN "out-of-contract"
  ELSE IF e.oob THEN "C09:out-of-bounds-access"
  ELSE IF e.asan THEN "C09:asan-report"
  ELSE IF e.exc THEN "C08:raised"
  ELSE IF e.alien THEN "C08:value-not-from-inputs"
  ELSE IF e.kind = "kernel" THEN
       (IF e.dtype # "uint32" THEN "C08:dtype"
        ELSE IF ~StrictlyInc(e.ret) THEN "C08:not-strictly-increasing"
        ELSE IF e.ret # Contract(e.op, e.A, e.B) THEN "C08:wrong-set"
        ELSE "ok")
  ELSE IF e.kind = "wrapper" THEN
       (LET want == Wrapper(e.op, Opt(e.a), Opt(e.b)) IN
        IF e.r.none # want.none THEN "C08:none-convention"
        ELSE IF ~e.r.none /\ e.dtype # "uint32" THEN "C08:dtype"
        ELSE IF e.r.v # want.v THEN "C08:wrong-set"
        ELSE "ok")
  ELSE (IF e.dtype # "uint32" THEN "C08:dtype"
        ELSE IF ~StrictlyInc(e.ret) THEN "C08:many-not-strictly-increasing"
        ELSE IF e.ret # CUnionMany(e.L) THEN "C08:many-wrong-set"
        ELSE "ok")

TInit == i \in 1..Len(Trace) /\ verdict = "init"
TNext == /\ verdict = "init"
         /\ verdict' = Verdict(Trace[i])
         /\ PrintT(<<"V", Trace[i].tid, verdict'>>)
         /\ UNCHANGED i
TSpec == TInit /\ [][TNext]_tvars
=============================================================================
