SPECIFICATION Spec
CONSTANTS U = 7
 UM = 4
 K = 3
INVARIANT NoOOB
INVARIANT WithinCap
INVARIANT ResultIsContract
INVARIANT ManyIsContract
INVARIANT ResultStrict
PROPERTY Terminates
