SPECIFICATION Spec
CONSTANTS
 Vals <- ValsQuick
 RowVals <- RowValsQuick
 MaxEnts = 2
 Arities <- AritiesOne
INVARIANT RoundTrip
INVARIANT SizeField
INVARIANT TornRejected
INVARIANT CompleteAccepted
INVARIANT SaverNarrowest
