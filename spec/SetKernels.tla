----------------------------- MODULE SetKernels -----------------------------
(* C08 / C09: the sorted-set kernels of set_operations.pyx.                   *)
(*                                                                            *)
(* Contract layer: mathematical set algebra on strictly increasing sequences, *)
(*   and the None / empty conventions of intersection / union / difference.   *)
(* Algorithm layer: the four merge loops as step functions over explicit      *)
(*   buffers; every buffer access is bounds-checked by the model (InB) and    *)
(*   an out-of-bounds access sets the sticky flag `oob` of the machine state. *)
(* Values are small naturals; the kernels use them only through <, > and =    *)
(* (the multi-way union no longer computes max+1), so uint32 values map onto  *)
(* them through any strictly monotone embedding.                              *)
EXTENDS Integers, Sequences, FiniteSets, SequencesExt, FiniteSetsExt, Functions

SetOf(s) == {s[k] : k \in DOMAIN s}
StrictlyInc(s) == \A k \in 1..(Len(s) - 1) : s[k] < s[k + 1]
Sorted(S) == SetToSortSeq(S, <)

\* ---- contract ---------------------------------------------------------------------------
CInter(A, B) == Sorted(SetOf(A) \cap SetOf(B))
CUnion(A, B) == Sorted(SetOf(A) \cup SetOf(B))
CDiff(A, B)  == Sorted(SetOf(A) \ SetOf(B))
CUnionMany(L) == Sorted(UNION {SetOf(L[k]) : k \in DOMAIN L})
Contract(op, A, B) == CASE op = "inter" -> CInter(A, B) [] op = "union" -> CUnion(A, B) [] OTHER -> CDiff(A, B)

\* wrappers: an operand is [none |-> BOOLEAN, v |-> sequence]; so is the result
None == [none |-> TRUE, v |-> <<>>]
Some(s) == [none |-> FALSE, v |-> s]
OrNone(s) == IF Len(s) = 0 THEN None ELSE Some(s)
WInter(a, b) == IF a.none \/ b.none THEN None ELSE OrNone(CInter(a.v, b.v))
WUnion(a, b) == IF a.none /\ b.none THEN None
                ELSE IF a.none THEN OrNone(b.v) ELSE IF b.none THEN OrNone(a.v) ELSE OrNone(CUnion(a.v, b.v))
WDiff(a, b)  == IF a.none THEN None ELSE IF b.none THEN OrNone(a.v) ELSE OrNone(CDiff(a.v, b.v))
Wrapper(op, a, b) == CASE op = "inter" -> WInter(a, b) [] op = "union" -> WUnion(a, b) [] OTHER -> WDiff(a, b)

\* ---- algorithm: two-way kernels -----------------------------------------------------------
\* machine state m: [op, A, B, pc, lp, rp, left, right, res, cap, oob, ret]
InB(k, n) == 0 <= k /\ k < n
Rd(arr, k) == IF InB(k, Len(arr)) THEN arr[k + 1] ELSE 0        \* garbage stands for 0
LenA(m) == Len(m.A)
LenB(m) == Len(m.B)

Start(op, A, B) ==
  [op |-> op, A |-> A, B |-> B, pc |-> "start", lp |-> 0, rp |-> 0, left |-> 0, right |-> 0,
   res |-> <<>>, cap |-> 0, oob |-> FALSE, ret |-> <<>>]

Finish(m, r) == [m EXCEPT !.pc = "done", !.ret = r]
Put(m, v) == IF Len(m.res) < m.cap THEN [m EXCEPT !.res = Append(m.res, v)] ELSE [m EXCEPT !.oob = TRUE]

\* prologue of each kernel: emptiness tests, first reads, no-overlap shortcut
StepStart(m) ==
  LET la == LenA(m)  lb == LenB(m)
      \* the reads performed after the emptiness tests
      rd == [m EXCEPT !.left = Rd(m.A, 0), !.right = Rd(m.B, 0),
                      !.oob = m.oob \/ ~InB(0, la) \/ ~InB(0, lb) \/ ~InB(lb - 1, lb) \/ ~InB(la - 1, la)]
      lastA == Rd(m.A, la - 1)   lastB == Rd(m.B, lb - 1)
  IN CASE m.op = "inter" ->
            IF la = 0 \/ lb = 0 THEN Finish(m, <<>>)
            ELSE IF rd.left > lastB \/ rd.right > lastA THEN Finish(rd, <<>>)
            ELSE [rd EXCEPT !.pc = "loop", !.cap = IF la < lb THEN la ELSE lb]
       [] m.op = "union" ->
            IF la = 0 THEN Finish(m, m.B)
            ELSE IF lb = 0 THEN Finish(m, m.A)
            ELSE IF rd.left > lastB THEN Finish(rd, m.B \o m.A)
            ELSE IF rd.right > lastA THEN Finish(rd, m.A \o m.B)
            ELSE [rd EXCEPT !.pc = "loop", !.cap = la + lb]
       [] OTHER ->
            IF la = 0 THEN Finish(m, <<>>)
            ELSE IF lb = 0 THEN Finish(m, m.A)
            ELSE IF rd.left > lastB \/ rd.right > lastA THEN Finish(rd, m.A)
            ELSE [rd EXCEPT !.pc = "loop", !.cap = la]

\* one iteration of `while 1`
StepLoop(m) ==
  LET la == LenA(m)  lb == LenB(m) IN
  IF m.left > m.right THEN
       LET w == IF m.op = "union" THEN Put(m, m.right) ELSE m
           rp == m.rp + 1
       IN IF rp >= lb THEN [w EXCEPT !.rp = rp, !.pc = "tailL"]
          ELSE [w EXCEPT !.rp = rp, !.right = Rd(m.B, rp), !.oob = w.oob \/ ~InB(rp, lb)]
  ELSE IF m.right > m.left THEN
       LET w == IF m.op \in {"union", "diff"} THEN Put(m, m.left) ELSE m
           lp == m.lp + 1
       IN IF lp >= la THEN [w EXCEPT !.lp = lp, !.pc = "tailL"]
          ELSE [w EXCEPT !.lp = lp, !.left = Rd(m.A, lp), !.oob = w.oob \/ ~InB(lp, la)]
  ELSE LET w == IF m.op \in {"union", "inter"} THEN Put(m, m.left) ELSE m
           lp == m.lp + 1   rp == m.rp + 1
       IN IF lp >= la \/ rp >= lb THEN [w EXCEPT !.lp = lp, !.rp = rp, !.pc = "tailL"]
          ELSE [w EXCEPT !.lp = lp, !.rp = rp, !.left = Rd(m.A, lp), !.right = Rd(m.B, rp),
                         !.oob = w.oob \/ ~InB(lp, la) \/ ~InB(rp, lb)]

\* `while left_ptr < left_len` (union, difference), one element per step
StepTailL(m) ==
  IF m.op = "inter" THEN Finish(m, m.res)
  ELSE IF m.lp < LenA(m)
       THEN LET w == Put(m, Rd(m.A, m.lp)) IN [w EXCEPT !.lp = m.lp + 1, !.oob = w.oob \/ ~InB(m.lp, LenA(m))]
       ELSE IF m.op = "union" THEN [m EXCEPT !.pc = "tailR"] ELSE Finish(m, m.res)

\* `while right_ptr < right_len` (union)
StepTailR(m) ==
  IF m.rp < LenB(m)
  THEN LET w == Put(m, Rd(m.B, m.rp)) IN [w EXCEPT !.rp = m.rp + 1, !.oob = w.oob \/ ~InB(m.rp, LenB(m))]
  ELSE Finish(m, m.res)

Step(m) == CASE m.pc = "start" -> StepStart(m)
             [] m.pc = "loop"  -> StepLoop(m)
             [] m.pc = "tailL" -> StepTailL(m)
             [] m.pc = "tailR" -> StepTailR(m)
             [] OTHER -> m

\* ---- algorithm: multi-way union ------------------------------------------------------------
\* machine state u: [arrs (non-empty inputs), values, ptr, lim, res, cap, oob, pc, ret]
RECURSIVE Flat(_)
Flat(L) == IF Len(L) = 0 THEN <<>> ELSE Head(L) \o Flat(Tail(L))
RECURSIVE Offsets(_,_)
Offsets(L, base) == IF Len(L) = 0 THEN <<>> ELSE <<base>> \o Offsets(Tail(L), base + Len(Head(L)))

StartMany(L) ==
  LET va == SelectSeq(L, LAMBDA a : Len(a) > 0)
      offs == Offsets(va, 0)
  IN [input |-> L, arrs |-> va, values |-> Flat(va), ptr |-> offs,
      lim |-> [k \in DOMAIN va |-> offs[k] + Len(va[k])],
      res |-> <<>>, cap |-> Len(Flat(va)), oob |-> FALSE,
      pc |-> IF Len(va) = 0 THEN "done" ELSE "loop", ret |-> <<>>]

\* one outer iteration: find the minimum head, emit it once, advance every array standing on it
StepMany(u) ==
  IF u.pc # "loop" THEN u ELSE
  LET live == {k \in DOMAIN u.arrs : u.ptr[k] < u.lim[k]}
      bad  == \E k \in live : ~InB(u.ptr[k], Len(u.values))
  IN IF live = {} THEN [u EXCEPT !.pc = "done", !.ret = u.res]
     ELSE LET mn == Min({Rd(u.values, u.ptr[k]) : k \in live})
              w  == IF Len(u.res) < u.cap THEN [u EXCEPT !.res = Append(u.res, mn)] ELSE [u EXCEPT !.oob = TRUE]
          IN [w EXCEPT !.ptr = [k \in DOMAIN u.arrs |->
                                  IF k \in live /\ Rd(u.values, u.ptr[k]) = mn THEN u.ptr[k] + 1 ELSE u.ptr[k]],
                       !.oob = w.oob \/ bad]
=============================================================================
