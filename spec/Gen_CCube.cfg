SPECIFICATION Spec
CONSTANTS N = 3
 E = 2
 ND = 2
INVARIANT EmitCase
