------------------------------ MODULE CubeAxes ------------------------------
(* Algorithm layer of the "scaffold" (extra axes) of both cubes - C13, and the  *)
(* reason C16 holds, at the level of the design:                                 *)
(*   ccubes.py / xcubes.py  __init__   scaffold_shape = extra extents of every   *)
(*                                     dimension, dimensions in order, axes in   *)
(*                                     order; shape = scaffold + interacting     *)
(*   iindexes.py  slices1d             buckets by the LAST axis first and labels *)
(*                                     the slice (coord,) + base_coords          *)
(*   ccube.product / xcube.product     itertools.product over the dimensions     *)
(*   calculate / fill_one_cube         region[tuple(flattened labels)] is the    *)
(*                                     view the sub-cube fills, one delivery     *)
(*                                     (cell) at a time, tasks in ANY interleaving*)
(*   fill_one_cube                     three steps per task: Start (interrupt      *)
(*                                     consulted, sub-cube built), Bind (views cut  *)
(*                                     out of the regions), Write (one per delivery)*)
(* A task is identified by the DATA it holds (`sel`: per dimension the coordinate *)
(* each extra axis was fixed to) and by the LABEL the code computed for it; the  *)
(* contract only mentions the former.                                            *)
EXTENDS Integers, Sequences, FiniteSets, TLC
CONSTANTS Family,     \* set of cubes: each a sequence (one per dimension) of sequences of extra-axis extents
          NCells,     \* deliveries per sub-cube
          Kind,       \* "ccube" (slices1d) | "xcube" (itertools.product of ranges)
          LabelRule,  \* "prepend" = (coord,) + base_coords, as the code does; "append" = base_coords + (coord,), a witness
          LabelStore  \* "local" = the coordinates a task binds its views with are its own (a local of fill_one_cube), as the
                      \* code does; "shared" = they are read back from an attribute of the cube all tasks share, a witness

RECURSIVE Cat(_)
Cat(ss) == IF Len(ss) = 0 THEN <<>> ELSE Head(ss) \o Cat(Tail(ss))
RECURSIVE Prod(_)
Prod(s) == IF Len(s) = 0 THEN 1 ELSE Head(s) * Prod(Tail(s))
FrontOf(s) == SubSeq(s, 1, Len(s) - 1)
LastOf(s) == s[Len(s)]
RECURSIVE MaxOf(_)
MaxOf(s) == IF Len(s) = 0 THEN 0 ELSE LET m == MaxOf(Tail(s)) IN IF Head(s) > m THEN Head(s) ELSE m

ScaffoldShape(ex) == Cat(ex)
IndexSpace(sh) == {j \in [1..Len(sh) -> 0..(MaxOf(sh) - 1)] : \A p \in 1..Len(sh) : j[p] < sh[p]}

\* itertools.product(*[range(e) for e in sh]): first coordinate slowest
RECURSIVE COrder(_)
COrder(sh) == IF Len(sh) = 0 THEN << <<>> >>
              ELSE LET rest == COrder(Tail(sh)) IN
                   Cat([k \in 1..Head(sh) |-> [i \in 1..Len(rest) |-> <<k - 1>> \o rest[i]]])

\* iindex.slices1d: bucket by the last axis, recurse on the rest; `sel` records which coordinate each axis was fixed to
RECURSIVE Slices1d(_,_,_,_)
Slices1d(sh, base, sel, rule) ==
  IF Len(sh) = 0 THEN << [label |-> base, sel |-> sel] >>
  ELSE Cat([k \in 1..LastOf(sh) |->
              Slices1d(FrontOf(sh), IF rule = "prepend" THEN <<k - 1>> \o base ELSE Append(base, k - 1),
                       [sel EXCEPT ![Len(sh)] = k - 1], rule)])

PerDim(sh, kind, rule) ==
  IF kind = "ccube" THEN Slices1d(sh, <<>>, [p \in 1..Len(sh) |-> -1], rule)
  ELSE LET co == COrder(sh) IN [i \in 1..Len(co) |-> [label |-> co[i], sel |-> co[i]]]

\* itertools.product over the dimensions: first dimension slowest
RECURSIVE ProductSeq(_)
ProductSeq(lists) == IF Len(lists) = 0 THEN << <<>> >>
                     ELSE LET rest == ProductSeq(Tail(lists)) IN
                          Cat([i \in 1..Len(Head(lists)) |-> [j \in 1..Len(rest) |-> <<Head(lists)[i]>> \o rest[j]]])

TasksOf(ex, kind, rule) == ProductSeq([d \in 1..Len(ex) |-> PerDim(ex[d], kind, rule)])
FlatLabel(t) == Cat([d \in 1..Len(t) |-> t[d].label])
SelOf(t) == [d \in 1..Len(t) |-> t[d].sel]

\* the contract (C13): block j of the result is the sub-cube of, per dimension d in order, the slice at j's own part
RECURSIVE Offset(_,_)
Offset(ex, d) == IF d = 1 THEN 0 ELSE Offset(ex, d - 1) + Len(ex[d - 1])
Split(ex, j) == [d \in 1..Len(ex) |-> SubSeq(j, Offset(ex, d) + 1, Offset(ex, d) + Len(ex[d]))]

\* ---- the evaluation as a state machine: sub-cubes fill their views one delivery at a time, in any interleaving ----
VARIABLES ex, tasks, region, pc, oob, shared, view
vars == <<ex, tasks, region, pc, oob, shared, view>>
Tasks == tasks            \* = TasksOf(ex, Kind, LabelRule), computed once
Addr == IndexSpace(ScaffoldShape(ex)) \X (1..NCells)
Unwritten == <<[d \in 1..Len(ex) |-> <<>>], 0>>

\* pc[i]: -2 not started, -1 started (interrupt consulted, sub-cube being built), 0..NCells views bound and so many cells delivered
Init == /\ ex \in Family
        /\ tasks = TasksOf(ex, Kind, LabelRule)
        /\ region = [a \in Addr |-> Unwritten]
        /\ pc = [i \in 1..Len(TasksOf(ex, Kind, LabelRule)) |-> -2]
        /\ view = [i \in 1..Len(TasksOf(ex, Kind, LabelRule)) |-> <<>>]
        /\ shared = <<>>
        /\ oob = FALSE
Start(i) == /\ pc[i] = -2
            /\ pc' = [pc EXCEPT ![i] = -1]
            /\ shared' = FlatLabel(Tasks[i])
            /\ UNCHANGED <<ex, tasks, region, oob, view>>
Bind(i) == /\ pc[i] = -1
           /\ pc' = [pc EXCEPT ![i] = 0]
           /\ view' = [view EXCEPT ![i] = IF LabelStore = "shared" THEN shared ELSE FlatLabel(Tasks[i])]
           /\ UNCHANGED <<ex, tasks, region, oob, shared>>
Write(i) == /\ pc[i] >= 0 /\ pc[i] < NCells
            /\ LET c == pc[i] + 1
                   a == <<view[i], c>>
               IN /\ pc' = [pc EXCEPT ![i] = c]
                  /\ IF a \in Addr THEN region' = [region EXCEPT ![a] = <<SelOf(Tasks[i]), c>>] /\ oob' = oob
                                   ELSE region' = region /\ oob' = TRUE      \* IndexError in the code
            /\ UNCHANGED <<ex, tasks, shared, view>>
Next == \E i \in DOMAIN pc : Start(i) \/ Bind(i) \/ Write(i)
Spec == Init /\ [][Next]_vars

Finished == \A i \in DOMAIN pc : pc[i] = NCells
InBounds == ~oob
OneTaskPerBlock == LET T == Tasks IN
                   /\ Len(T) = Prod(ScaffoldShape(ex))
                   /\ {FlatLabel(T[i]) : i \in 1..Len(T)} = IndexSpace(ScaffoldShape(ex))
LabelIsData == LET T == Tasks IN \A i \in 1..Len(T) : \A d \in 1..Len(ex) : T[i][d].label = T[i][d].sel
BlockHoldsItsSlices == \A a \in Addr : region[a][2] # 0 => region[a] = <<Split(ex, a[1]), a[2]>>
Complete == Finished => \A a \in Addr : region[a][2] # 0
\* schedule-independence at the level of the design (C16): whatever the interleaving, the finished result is one and the
\* same function of the input
FinalIsAFunctionOfTheInput == Finished => region = [a \in Addr |-> <<Split(ex, a[1]), a[2]>>]
\* independence: no cell is ever written twice, by whichever task
WriteOnce == [][\A a \in Addr : region[a][2] # 0 => region'[a] = region[a]]_vars
=============================================================================
