SPECIFICATION Spec
CONSTANT Ks <- KsQuick
INVARIANT LadderIsNarrowest
INVARIANT ContractContains
