SPECIFICATION Spec
CONSTANTS N = 4
 E = 3
 ND = 2
INVARIANT WalkIsContract
INVARIANT CubeIsContract
