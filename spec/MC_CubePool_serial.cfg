SPECIFICATION Spec
CONSTANTS T = 6
 P = 1
 F = 2
 Guarded = TRUE
 Kinds = {"exception"}
 Serial = TRUE
 FaultSets <- SingleFaults
INVARIANT ScheduleIndependent
INVARIANT WriteSetsDisjoint
INVARIANT RaisesIffFaultConsulted
INVARIANT ConsultedAtMostOnce
INVARIANT SecondRunClean
PROPERTY Terminates
