----------------------------- MODULE Trace_Cube -----------------------------
(* L3 for C02, C03, C04, C05, C13, C14, C18 (and the cube part of C17): every *)
(* recorded evaluation of a real ccube / xcube is judged cell by cell against *)
(* the direct per-cell contract of Agg.tla.                                   *)
(*                                                                            *)
(*  kind "agg":  one sub-cube (one-axis dimensions given as dense category    *)
(*    arrays, whatever encoding or common value the real cube was given), one *)
(*    aggregate, one report format, and the cells the code returned:          *)
(*      c = category coordinates, k / k2 = fact column(s) (0 = none),         *)
(*      miss = "y" | "n" | "u" (plain format: unknown), val = rational the    *)
(*      float converts to, near = that conversion is within tolerance.        *)
(*    sparse = TRUE: cells not listed were returned missing (with the null    *)
(*      value); the specification checks no row falls in an unlisted cell     *)
(*      unless the contract makes that cell missing too.                      *)
(*  kind "walk": the (coords, rows) pairs handed to a walk callback.          *)
(* The owning property is the one the driver generated the event for (prop).  *)
(* For a value mismatch the expected exact value is printed (<<"E", ...>>) so *)
(* the harness can re-check it numerically against the float.                 *)
EXTENDS Agg, Json, IOUtils

Trace == ndJsonDeserialize(IOEnv.TRACE_FILE)

VARIABLES i, done
tvars == <<i, done>>

If(c, name) == IF c THEN {name} ELSE {}

\* JSON -> instance with normalised rationals
Inst(j) == [n |-> j.n, dims |-> j.dims, ishape |-> j.ishape, K |-> j.K,
            vals |-> [r \in DOMAIN j.vals |-> [k \in DOMAIN j.vals[r] |-> RFromJson(j.vals[r][k])]],
            fvalid |-> j.fvalid, wkind |-> j.wkind,
            w |-> [r \in DOMAIN j.w |-> RFromJson(j.w[r])], wvalid |-> j.wvalid,
            ignore |-> j.ignore, func |-> j.func, p |-> RFromJson(j.p), commons |-> j.commons]

Expected(e, c) ==
  CASE e.func = "count" -> Count(e, c.c)
    [] e.func = "valid_count" -> ValidCount(e, c.c, c.k)
    [] e.func = "sum" -> Sum(e, c.c, c.k)
    [] e.func = "mean" -> Mean(e, c.c, c.k)
    [] e.func = "stddev" -> Variance(e, c.c, c.k)           \* compared on squares
    [] e.func = "quantile" -> Quantile(e, c.c, c.k)
    [] e.func = "min" -> Extreme(e, c.c, c.k, FALSE)
    [] e.func = "max" -> Extreme(e, c.c, c.k, TRUE)
    [] OTHER -> [miss |-> TRUE, val |-> RZero]

\* judgement of one returned cell: a set of clause suffixes
JudgeCell(j, e, q) ==
  LET c == j.cells[q]
      got == RFromJson(c.val)
  IN IF e.func \in {"covariance", "corrcoef"} THEN
        LET cr == CovRows(e, c.c, c.k, c.k2)
            def == ~cr.miss /\ CovDefined(e, cr.V)
            cov == CovOf(e, cr.V, c.k, c.k2)
            vx == CovOf(e, cr.V, c.k, c.k)   vy == CovOf(e, cr.V, c.k2, c.k2)
        IN IF cr.miss THEN If(c.miss = "n", "cell-should-be-missing")
           ELSE IF ~def THEN {}                                   \* mathematically undefined: not compared
           ELSE IF e.func = "covariance"
                THEN If(c.miss = "y", "cell-wrongly-missing")
                     \cup If(c.miss # "y" /\ (~c.near \/ got # cov), "value-differs")
                ELSE IF vx[1] = 0 \/ vy[1] = 0 THEN {}            \* zero variance: undefined
                ELSE If(c.miss = "y", "cell-wrongly-missing")
                     \* correlation compared on squares, with the sign of the covariance
                     \cup If(c.miss # "y" /\ (~c.near \/ got # RDiv(RMul(cov, cov), RMul(vx, vy))
                                               \/ c.sign # (IF cov[1] > 0 THEN 1 ELSE IF cov[1] < 0 THEN -1 ELSE 0)),
                             "value-differs")
     ELSE IF e.func = "wquantile" THEN
        LET RR == Rows(e, c.c)  V == Valid(e, c.c, c.k)  m == MissingBy(e, RR, V) IN
        IF m THEN If(c.miss = "n", "cell-should-be-missing")
        ELSE IF WSum(e, V)[1] = 0 THEN {}                          \* all-zero weights: undefined
        ELSE If(c.miss = "y", "cell-wrongly-missing")
             \cup If(c.miss # "y" /\ (RLess(got, MinVal(e, V, c.k)) \/ RLess(MaxVal(e, V, c.k), got)), "value-outside-cell-range")
             \cup If(c.miss # "y" /\ ~c.same2, "value-changes-under-weight-rescaling")
     ELSE IF e.func = "stddev" /\ VarianceUndefined(e, c.c, c.k) THEN {}
     ELSE
        LET x == Expected(e, c) IN
        IF x.miss THEN If(c.miss = "n", "cell-should-be-missing")
                       \cup If(c.miss = "u" /\ got # RFromJson(j.null), "plain-replacement-not-written")
        ELSE If(c.miss = "y", "cell-wrongly-missing")
             \cup If(c.miss # "y" /\ (~c.near \/ got # x.val), "value-differs")

\* rows that fall in a cell the code did not list (sparse reports) must be in contract-missing cells
Unlisted(j, e) ==
  IF ~j.sparse THEN {}
  ELSE LET listed == {j.cells[q].c : q \in DOMAIN j.cells}
           cellOf(r) == [d \in 1..ND(e) |-> e.dims[d][r]]
           ks == IF e.K = 0 THEN {0} ELSE 1..e.K
       IN If(\E r \in RowSet(e) : cellOf(r) \notin listed
                /\ \E k \in ks : ~Expected(e, [c |-> cellOf(r), k |-> k]).miss, "cell-wrongly-missing")

JudgeAgg(j) ==
  LET e == Inst(j) IN
  IF j.exc THEN {j.prop \o ":raised"}
  ELSE If(~j.shapeok, j.prop \o ":result-shape")
       \cup If(~j.memsame, "C17:argument-changed")
       \cup {j.prop \o ":" \o s : s \in UNION {JudgeCell(j, e, q) : q \in DOMAIN j.cells} \cup Unlisted(j, e)}

JudgeWalk(j) ==
  LET e == [n |-> j.n, dims |-> j.dims, commons |-> j.commons]
      del == j.delivered
      want == {c \in WalkCoords(e) : WalkRows(e, c) # {}}
  IN If(\E q \in DOMAIN del : del[q].c \notin WalkCoords(e), "C14:delivered-common-or-unknown-coordinate")
     \cup If(\E q \in DOMAIN del : del[q].c \in WalkCoords(e)
                 /\ del[q].rows # SetToSortSeq(WalkRows(e, del[q].c), <), "C14:wrong-rows")
     \cup If(\E q \in DOMAIN del : Len(del[q].rows) = 0, "C14:empty-delivery")
     \cup If(\E q, q2 \in DOMAIN del : q # q2 /\ del[q].c = del[q2].c, "C14:delivered-twice")
     \cup If(\E c \in want : \A q \in DOMAIN del : del[q].c # c, "C14:intersection-not-delivered")

\* kind "session": a history of calculate() calls on shared cubes / function objects; same[q][k] says whether
\* the k-th output of call q is bit-identical to the output of that aggregate computed alone on fresh objects
JudgeSession(j) ==
  If(\E q \in DOMAIN j.calls : \E k \in DOMAIN j.calls[q].same : ~j.calls[q].same[k], "C17:result-depends-on-history")
  \cup If(~j.memsame, "C17:argument-changed")

\* kind "engage" (beyond the listed properties, owner X00): the pool is engaged exactly when the cube has more than
\* two sub-cubes and rows x sub-cubes reaches the threshold (BIG_REGIONS, patched to a small number by the harness)
JudgeEngage(j) == If(j.parallel # (j.T > 2 /\ j.n * j.T >= j.big), "X00:pool-engagement-predicate")

Judge(j) == IF j.kind = "walk" THEN JudgeWalk(j) ELSE IF j.kind = "session" THEN JudgeSession(j)
            ELSE IF j.kind = "engage" THEN JudgeEngage(j) ELSE JudgeAgg(j)

\* expected exact values of the cells whose value was judged different (for the numeric re-check)
EmitExpected(j) ==
  IF j.kind # "agg" \/ j.exc THEN TRUE
  ELSE LET e == Inst(j) IN
       \A q \in DOMAIN j.cells :
          ("value-differs" \in JudgeCell(j, e, q)) =>
             LET c == j.cells[q]
                 v == IF e.func = "covariance" THEN CovOf(e, CovRows(e, c.c, c.k, c.k2).V, c.k, c.k2)
                      ELSE IF e.func = "corrcoef" THEN
                           LET V == CovRows(e, c.c, c.k, c.k2).V  cv == CovOf(e, V, c.k, c.k2) IN
                           RDiv(RMul(cv, cv), RMul(CovOf(e, V, c.k, c.k), CovOf(e, V, c.k2, c.k2)))
                      ELSE Expected(e, c).val
             IN PrintT(<<"E", j.tid, q, v[1], v[2]>>)

TInit == i \in 1..Len(Trace) /\ done = FALSE
TNext == /\ ~done /\ done' = TRUE /\ UNCHANGED i
         /\ LET cs == Judge(Trace[i]) IN
            IF cs = {} THEN PrintT(<<"V", Trace[i].tid, "ok">>)
            ELSE (\A c \in cs : PrintT(<<"V", Trace[i].tid, c>>)) /\ EmitExpected(Trace[i])
TSpec == TInit /\ [][TNext]_tvars
=============================================================================
