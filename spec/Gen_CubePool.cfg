SPECIFICATION GSpec
CONSTANTS T = 6
 P = 3
 F = 2
 Serial = FALSE
 FaultSets <- NoFaults
INVARIANT Emit
