SPECIFICATION GSpec
CONSTANTS T = 6
 P = 3
 F = 2
 Guarded = TRUE
 Kinds = {"exception"}
 Serial = FALSE
 FaultSets <- NoFaults
INVARIANT Emit
