------------------------------ MODULE IIndexAlg ------------------------------
(* Algorithm layer of the inverted index: how iindexes.py manipulates the      *)
(* entries dict, operation by operation (1-D and 2-D receivers), mirrored      *)
(* after the repairs of this round.  MC_IIndexAlg checks that every mirrored   *)
(* operation refines the dense-array contract of IIndex.tla for ALL small      *)
(* receivers, operands and arguments:                                          *)
(*       WF(result)  /\  Abs(result) = contract dense  /\  common as required  *)
(*                                                                             *)
(* A dict is a set of pairs <<key, rows>> with pairwise different keys;        *)
(* key = <<v>> or <<v, col>>; rows is a sequence (possibly unsorted when the   *)
(* code would leave it unsorted).                                              *)
EXTENDS IIndex

Get(P, k) == IF \E p \in P : p[1] = k THEN (CHOOSE p \in P : p[1] = k)[2] ELSE <<>>
Has(P, k) == \E p \in P : p[1] = k
Del(P, k) == {p \in P : p[1] # k}
Put(P, k, rows) == Del(P, k) \cup {<<k, rows>>}
KeysOf(P) == {p[1] : p \in P}

NCol(s) == IF Len(s) = 1 THEN 1 ELSE s[2]
ColKey(s, v, c) == IF Len(s) = 1 THEN <<v>> ELSE <<v, c>>
ColOf(s, k) == IF Len(s) = 1 THEN 0 ELSE k[2]
Cols(s) == 0..(NCol(s) - 1)

ToRep(s, common, P) ==
  LET sq == SetToSeq(P) IN
  [shape |-> s, common |-> common,
   ents |-> [j \in DOMAIN sq |-> [k |-> sq[j][1], rows |-> sq[j][2], u32 |-> TRUE, pyint |-> TRUE]]]

\* rows of column c not listed under any key of that column: common_rowids(col)
CommonRows(s, P, c) ==
  SortedSeq((0..(s[1] - 1)) \ UNION {SeqSet(p[2]) : p \in {q \in P : ColOf(s, q[1]) = c}})

\* ---- shift_common -----------------------------------------------------------------------------
SizeOf(s) == s[1] * NCol(s)
Listed(P) == {p[1][1] : p \in P}
CountOf(P, v) == FoldSet(LAMBDA p, acc : acc + Len(p[2]), 0, {q \in P : q[1][1] = v})
TotalListed(P) == FoldSet(LAMBDA p, acc : acc + Len(p[2]), 0, P)
\* counts[common] = size - sum(counts); new common = max((count, value)): highest count, ties to the larger value
AutoCommon(s, common, P) ==
  LET vals == Listed(P) \cup {common}
      cnt(v) == IF v = common THEN SizeOf(s) - TotalListed(P) ELSE CountOf(P, v)
  IN CHOOSE v \in vals : \A w \in vals : cnt(w) < cnt(v) \/ (cnt(w) = cnt(v) /\ w <= v)

ShiftTo(s, common, P, newc) ==
  IF newc = common THEN <<common, P>>
  ELSE LET withOld == P \cup {<<ColKey(s, common, c), CommonRows(s, P, c)>> : c \in {d \in Cols(s) : CommonRows(s, P, d) # <<>>}}
       IN <<newc, {p \in withOld : p[1][1] # newc}>>
ShiftAuto(s, common, P) == ShiftTo(s, common, P, AutoCommon(s, common, P))

\* ---- append(other) ---------------------------------------------------------------------------------
Shifted(rows, by) == [j \in DOMAIN rows |-> rows[j] + by]
AppendAlg(s, common, P, os, ocommon, OP) ==
  LET n == s[1]
      \* explicit entries of other whose value is not self.common
      step1 == {<<k, Get(P, k) \o (IF Has(OP, k) /\ k[1] # common THEN Shifted(Get(OP, k), n) ELSE <<>>)>> :
                  k \in KeysOf(P) \cup {q \in KeysOf(OP) : q[1] # common}}
      \* rows of other that hold other.common (only when it differs, and only when there are any)
      step2 == IF ocommon = common THEN step1
               ELSE LET add == {c \in Cols(s) : CommonRows(os, OP, c) # <<>>} IN
                    {p \in step1 : ~(\E c \in add : p[1] = ColKey(s, ocommon, c))}
                    \cup {<<ColKey(s, ocommon, c), Get(step1, ColKey(s, ocommon, c)) \o Shifted(CommonRows(os, OP, c), n)>> : c \in add}
      ns == <<n + os[1]>> \o Tail(s)
      r == ShiftAuto(ns, common, step2)
  IN ToRep(ns, r[1], r[2])

\* ---- update(cells) ---------------------------------------------------------------------------------
\* cells: sequence of [k, rows]; first remove the target cells from every entry, then union the new rows
\* into the entries whose value is not the common value
UpdateAlg(s, common, P, cells) ==
  LET target(c) == UNION {SeqSet(cells[j].rows) : j \in {q \in DOMAIN cells : ColOf(s, cells[q].k) = c}}
      removed == {pp \in {<<p[1], SortedSeq(SeqSet(p[2]) \ target(ColOf(s, p[1])))>> : p \in P} : pp[2] # <<>>}
      news == {j \in DOMAIN cells : cells[j].k[1] # common}
      keys == KeysOf(removed) \cup {cells[j].k : j \in news}
      merged == {<<k, SortedSeq(SeqSet(Get(removed, k)) \cup UNION {SeqSet(cells[j].rows) : j \in {q \in news : cells[q].k = k}})>> : k \in keys}
  IN ToRep(s, common, {p \in merged : p[2] # <<>>})

\* update(entries) where entries IS the receiver (defect F24). Pass 1 collects, over self.items(), the entries all of
\* whose rows are assigned to (here: every entry) and deletes them from self; pass 2 inserts `entries`. The repaired code
\* iterates a snapshot dict(entries) taken first; the pinned code read `entries` after pass 1 had emptied it.
CellsOfSelf(P) == LET sq == SetToSeq(P) IN [j \in DOMAIN sq |-> [k |-> sq[j][1], rows |-> sq[j][2]]]
UpdateSelfAlg(s, common, P, snapshot) ==
  IF snapshot THEN UpdateAlg(s, common, P, CellsOfSelf(P))
  ELSE LET afterPass1 == {p \in P : FALSE}           \* every entry matched in full: all deleted - from the input as well
       IN UpdateAlg(s, common, afterPass1, CellsOfSelf(afterPass1))

\* ---- filtered(mask) -----------------------------------------------------------------------------------
FilteredAlg(s, common, P, mask) ==
  LET kept == KeptRows(mask)
      newid(r) == CHOOSE j \in 0..(Len(kept) - 1) : kept[j + 1] = r
      f(rows) == SortedSeq({newid(r) : r \in {x \in SeqSet(rows) : mask[x + 1]}})
      ents == {pp \in {<<p[1], f(p[2])>> : p \in P} : pp[2] # <<>>}
      ns == <<Len(kept)>> \o Tail(s)
      r == ShiftAuto(ns, common, ents)
  IN ToRep(ns, r[1], r[2])

\* ---- reindexed(mapping, shift) ---------------------------------------------------------------------------
ReindexedAlg(s, common, P, m, shift) ==
  LET newc == Lookup(m, common, common)
      nk(k) == <<Lookup(m, k[1], k[1])>> \o Tail(k)
      kept == {p \in P : Lookup(m, p[1][1], p[1][1]) # newc}
      keys == {nk(p[1]) : p \in kept}
      merged == {<<k, SortedSeq(UNION {SeqSet(p[2]) : p \in {q \in kept : nk(q[1]) = k}})>> : k \in keys}
      didmerge == (kept # P) \/ (Cardinality(keys) # Cardinality(kept))
      r == IF shift /\ didmerge THEN ShiftAuto(s, newc, merged) ELSE <<newc, merged>>
  IN ToRep(s, r[1], r[2])

\* ---- from_array (numpy.where strategy), used by collapsed ---------------------------------------------------
\* common = first value with the highest count in ascending value order (bincount / unique order)
FromArray1D(D, n) ==
  LET vals == RangeOf(D)
      cnt(v) == Count(D, v)
      common == IF vals = {} THEN 0 ELSE CHOOSE v \in vals : \A w \in vals : cnt(w) < cnt(v) \/ (cnt(w) = cnt(v) /\ v <= w)
  IN <<common, {<<<<v>>, RowsWith(D, <<n>>, <<>>, v)>> : v \in vals \ {common}}>>

\* ---- collapsed(precedence, mapping): 2-D receiver ----------------------------------------------------------
CollapsedAlg(s, common, P, prec, m) ==
  LET n == s[1]  nc == s[2]
      newc == Lookup(m, common, common)
      mv(v) == Lookup(m, v, v)
      \* gathered[coord] = multiset of rows per (coord, col) entry; represented per row as a count
      holds(r, v) == Cardinality({p \in P : mv(p[1][1]) = v /\ mv(p[1][1]) # newc /\ InSeq(r, p[2])})
      default == prec[Len(prec)]
      gatheredVals == {mv(p[1][1]) : p \in {q \in P : mv(q[1][1]) # newc}}
      \* common_count[r] after the up-front subtraction (default value and values not mentioned in precedence)
      cc0(r) == nc - FoldSet(LAMBDA v, acc : acc + holds(r, v), 0, {v \in gatheredVals : v = default \/ ~InSeq(v, prec)})
      \* walk precedence[:-1] in reverse; state = <<output value, common_count, common_has_been_written>>
      RECURSIVE Walk(_,_,_,_,_)
      Walk(r, j, out, cc, written) ==
        IF j = 0 THEN out
        ELSE LET coord == prec[j] IN
             IF coord = newc
             THEN Walk(r, j - 1, IF cc # 0 THEN coord ELSE out, cc, TRUE)
             ELSE Walk(r, j - 1, IF holds(r, coord) > 0 THEN coord ELSE out,
                       IF written THEN cc ELSE cc - holds(r, coord), written)
      outOf(r) == IF default # newc THEN Walk(r, Len(prec) - 1, default, cc0(r), FALSE)
                  ELSE Walk(r, Len(prec) - 1, default, 0, TRUE)
      D == [cell \in Cells(<<n>>) |-> outOf(cell[1])]
      r0 == FromArray1D(D, n)
  IN IF n = 0 THEN ToRep(<<0>>, newc, {}) ELSE ToRep(<<n>>, r0[1], r0[2])

\* ---- sliced(order) on a 2-D receiver: o.t in {"none", "int", "list"} ----------------------------------------
SlicedAlg(s, common, P, o) ==
  LET ns == SliceShape(s, <<o>>) IN
  ToRep(ns, common,
        CASE o.t = "none" -> P
          [] o.t = "int"  -> {<<<<p[1][1]>>, p[2]>> : p \in {q \in P : q[1][2] = o.i}}
          [] OTHER        -> {<<<<p[1][1], (CHOOSE j \in DOMAIN o.l : o.l[j] = p[1][2]) - 1>>, p[2]>> :
                                p \in {q \in P : InSeq(q[1][2], o.l)}})

\* ---- column_stack of two inputs with new_common ----------------------------------------------------------------
ColumnStackAlg(s1, c1, P1, s2, c2, P2, newc) ==
  LET a == ShiftTo(s1, c1, P1, newc)   b == ShiftTo(s2, c2, P2, newc)
      w1 == NCol(s1)
      left == {<<<<p[1][1], ColOf(s1, p[1])>>, p[2]>> : p \in a[2]}
      right == {<<<<p[1][1], ColOf(s2, p[1]) + w1>>, p[2]>> : p \in b[2]}
  IN ToRep(<<s1[1], w1 + NCol(s2)>>, newc, left \cup right)
=============================================================================
