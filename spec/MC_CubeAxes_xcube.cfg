SPECIFICATION Spec
CONSTANTS
  Family <- BigFamily
  NCells = 1
  Kind = "xcube"
  LabelRule = "prepend"
  LabelStore = "local"
INVARIANT InBounds
INVARIANT OneTaskPerBlock
INVARIANT LabelIsData
INVARIANT BlockHoldsItsSlices
INVARIANT Complete
INVARIANT FinalIsAFunctionOfTheInput
PROPERTY WriteOnce
CHECK_DEADLOCK FALSE
