----------------------------- MODULE Trace_Indx -----------------------------
(* L3 for C10 / C11 / C12: one event per real IndxIO.save of data x followed  *)
(* by a real IndxIO.load of the complete file and of every proper prefix.     *)
(*   kind "file":  x, the bytes the code wrote, what load returned, and the   *)
(*                 list of cut points at which load did NOT raise.            *)
(*   kind "read":  bytes produced by this specification (Encode with any      *)
(*                 admissible word sizes), and what the real load returned.   *)
(*   kind "size":  a save whose row ids total >= 2^30 (not materialised):     *)
(*                 the 16 header bytes against exact PayloadLen arithmetic.   *)
(*   kind "many":  a save + load of tens of thousands of entries: counts and  *)
(*                 sampled entries.                                           *)
(* Every failing clause is printed; "ok" when none fails.                     *)
EXTENDS Indx, Json, IOUtils

Trace == ndJsonDeserialize(IOEnv.TRACE_FILE)

VARIABLES i, done
tvars == <<i, done>>

X(e) == [arity |-> e.x.arity, common |-> e.x.common,
         ents |-> [k \in DOMAIN e.x.ents |-> [c |-> e.x.ents[k].c, r |-> e.x.ents[k].r]]]
L(e) == [k \in DOMAIN e.loaded.ents |-> [c |-> e.loaded.ents[k].c, r |-> e.loaded.ents[k].r]]

If(c, name) == IF c THEN {name} ELSE {}

\* a row-id array with more elements than its length word can count has no file: the writer must refuse (raise)
\* (the second conjunct of Indx!RwsOK, the pre-condition of Encode)
TooLong(e) == \E k \in DOMAIN e.x.ents : ~FitsBytes(FromNat(Len(e.x.ents[k].r)), e.rws)

WriterClauses(e) ==
  LET x == X(e)  b == e.bytes  n == Len(x.ents)
      abOK(ab) == IF n = 0 THEN ab \in {0, x.arity} ELSE ab = x.arity
      want(ab) == Encode(x, ab, SaverIws(x), e.rws)
  IN IF e.saveexc THEN (IF TooLong(e) THEN {} ELSE {"C10:save-raised"})
     ELSE IF TooLong(e) THEN {"C11:row-count-does-not-fit-its-length-word"}
     ELSE IF Len(b) < 23 \/ SubSeq(b, 1, 8) # Magic THEN {"C11:magic-or-header"}
     ELSE If(Word(b, 8, 8) # FromNat(Len(b) - 16), "C11:size-field")
          \cup If(b[22] # SaverIws(x), "C11:index-word-size-not-narrowest")
          \cup If(~abOK(b[17]) \/ b # want(b[17]), "C11:bytes-differ-from-layout")
          \cup If(~SameData(Decode(b), x), "C11:independent-decoder-disagrees")

LoadClauses(e, own) ==
  LET x == X(e) IN
  IF ~e.loaded.ok THEN {own \o ":load-raised"}
  ELSE If(e.loaded.common # x.common, own \o ":common")
       \cup If(L(e) # x.ents, own \o ":entries")
       \cup If(~e.loaded.inttypes, own \o ":coordinate-type")
       \cup If(~e.loaded.u32, own \o ":rowid-dtype")
       \cup If(~e.rebuilt, "C10:rebuilt-index-differs-or-invalid")

TornClauses(e) ==
  LET b == e.bytes IN
  If(Len(e.accepted) > 0, "C12:torn-file-accepted")
  \cup If(\E k \in 0..(Len(b) - 1) : Accepts(SubSeq(b, 1, k)), "C12:size-field-lets-a-prefix-pass")
  \cup If(~Accepts(b), "C12:complete-file-not-accepted-by-model")

SizeClauses(e) ==
  IF e.saveexc THEN {"C11:save-raised-on-large-row-count"}
  ELSE If(Word(e.header, 8, 8) # PayloadLen(e.arity, e.n, e.iws, e.rws, e.rowcounts), "C11:size-field-large")
       \cup If(e.filelen # BAdd(<<16>>, PayloadLen(e.arity, e.n, e.iws, e.rws, e.rowcounts)), "C11:file-length-large")
       \* a size field smaller than what was written lets the loader accept the file torn anywhere after 16 + size bytes
       \cup If(BLess(BAdd(<<16>>, Word(e.header, 8, 8)), e.filelen), "C12:size-field-lets-a-prefix-pass")

\* an index with tens of thousands of entries: counts and a sample of entries (the harness adds the all-entries verdict)
ManyClauses(e) ==
  IF e.saveexc THEN {"C10:save-raised"}
  ELSE IF e.loadexc THEN {"C10:load-raised"}
  ELSE If(e.nloaded # e.n, "C10:entry-count")
       \cup If(e.lcommon # e.common, "C10:common")
       \cup If(\E q \in DOMAIN e.sample : ~e.sample[q].found \/ e.sample[q].lr # e.sample[q].r, "C10:entries")
       \cup If(~e.allsame, "C10:entries-differ-somewhere")

Clauses(e) ==
  CASE e.kind = "many" -> ManyClauses(e)
    [] e.kind = "file" -> WriterClauses(e) \cup (IF e.saveexc THEN {} ELSE LoadClauses(e, "C10") \cup TornClauses(e))
    [] e.kind = "read" -> LoadClauses(e, "C11")
                          \cup If(~SameData(Decode(e.bytes), X(e)), "C11:spec-decode-of-spec-bytes")
    [] OTHER -> SizeClauses(e)

TInit == i \in 1..Len(Trace) /\ done = FALSE
TNext == /\ ~done /\ done' = TRUE /\ UNCHANGED i
         /\ LET cs == Clauses(Trace[i]) IN
            IF cs = {} THEN PrintT(<<"V", Trace[i].tid, "ok">>)
            ELSE \A c \in cs : PrintT(<<"V", Trace[i].tid, c>>)
TSpec == TInit /\ [][TNext]_tvars
=============================================================================
