SPECIFICATION Spec
CONSTANT Shapes <- ShapeFamily
INVARIANT AddressIsRowMajor
