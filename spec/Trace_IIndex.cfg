SPECIFICATION TSpec
