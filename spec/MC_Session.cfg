SPECIFICATION Spec
CONSTANTS Cubes = {1, 2}
 Funcs = {1, 2, 3}
 MaxCalls = 3
 MaxFuncs = 3
INVARIANT Pure
