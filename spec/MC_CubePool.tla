----------------------------- MODULE MC_CubePool -----------------------------
EXTENDS CubePool
AllFaultSets == SUBSET Tasks
SingleFaults == {{}} \cup {{t} : t \in Tasks}
=============================================================================
