----------------------------- MODULE MC_CubePool -----------------------------
EXTENDS CubePool
AllFaultSets == SUBSET Tasks
SingleFaults == {{}} \cup {{t} : t \in Tasks}
UpToTwoFaults == {S \in SUBSET Tasks : Cardinality(S) <= 2}
=============================================================================
