SPECIFICATION Spec
CONSTANTS MaxRows = 3
 MaxLen = 7
INVARIANT Emit
