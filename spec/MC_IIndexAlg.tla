---------------------------- MODULE MC_IIndexAlg ----------------------------
(* L1 for C06 / C07 / C15: every mirrored index operation (IIndexAlg) refines   *)
(* the dense-array contract (IIndex) on ALL receivers over values {0,1,2} with  *)
(* up to MaxRows1 rows (1-D) / MaxRows2 rows x 2 columns (2-D), every common    *)
(* value incl. the absent value 3, and every argument of the small domains      *)
(* below.  The choice is spread over phases so that all workers share the work. *)
EXTENDS IIndexAlg
CONSTANTS MaxRows1, MaxRows2,
          Snapshot   \* TRUE: update() iterates a copy of its argument (the repaired code); FALSE: the pinned code

Vals == 0..2
CVals == 0..3
Shapes == {<<n>> : n \in 0..MaxRows1} \cup {<<n, 2>> : n \in 0..MaxRows2}
RowSets(n) == SUBSET (0..(n - 1))

VARIABLES phase, s, D, c, op, res, want
vars == <<phase, s, D, c, op, res, want>>
NoRep == [shape |-> <<0>>, common |-> 0, ents |-> <<>>]
NoWant == [shape |-> <<0>>, D |-> <<>>, ck |-> "any", cv |-> 0]

P0 == RepPairs(D, s, c)          \* the receiver's (unique, well-formed) dict

\* partial mappings with at most two keys
Maps == {<<>>} \cup {<<<<a, b>>>> : a, b \in CVals} \cup {<<<<a, b>>, <<x, y>>>> : a, b, x, y \in CVals}
MapsOK == {m \in Maps : Len(m) < 2 \/ m[1][1] < m[2][1]}
Precs == {<<a>> : a \in CVals} \cup {<<a, b>> : <<a, b>> \in {q \in CVals \X CVals : q[1] # q[2]}}
         \cup {<<a, b, d>> : <<a, b, d>> \in {q \in CVals \X CVals \X CVals : q[1] # q[2] /\ q[1] # q[3] /\ q[2] # q[3]}}
Orders == {[t |-> "none", i |-> 0, l |-> <<>>], [t |-> "int", i |-> 0, l |-> <<>>], [t |-> "int", i |-> 1, l |-> <<>>],
           [t |-> "list", i |-> 0, l |-> <<0>>], [t |-> "list", i |-> 0, l |-> <<1>>], [t |-> "list", i |-> 0, l |-> <<0, 1>>],
           [t |-> "list", i |-> 0, l |-> <<1, 0>>]}
CellsArgs == \* one or two assigned cells
  LET one == {[k |-> ColKey(s, v, col), rows |-> SortedSeq(R)] : v \in CVals, col \in Cols(s), R \in RowSets(s[1]) \ {{}}}
  IN {<<a>> : a \in one} \cup {<<a, b>> : <<a, b>> \in {q \in one \X one : q[1].k # q[2].k /\ AssignDisjoint(<<q[1], q[2]>>)}}

Init == phase = 0 /\ s = <<0>> /\ D = <<>> /\ c = 0 /\ op = "none" /\ res = NoRep /\ want = NoWant

Apply(o, r, w) == op' = o /\ res' = r /\ want' = w /\ phase' = 3 /\ UNCHANGED <<s, D, c>>
W(sh, dd, ck, cv) == [shape |-> sh, D |-> dd, ck |-> ck, cv |-> cv]
ModalOrAny(dd) == IF DOMAIN dd = {} THEN "any" ELSE "modal"

Next ==
  \/ phase = 0 /\ \E sh \in Shapes : s' = sh /\ phase' = 1 /\ UNCHANGED <<D, c, op, res, want>>
  \/ phase = 1 /\ \E dd \in [Cells(s) -> Vals], cc \in CVals : D' = dd /\ c' = cc /\ phase' = 2 /\ UNCHANGED <<s, op, res, want>>
  \/ phase = 2 /\
     ( \/ \E v \in CVals : LET r == ShiftTo(s, c, P0, v) IN Apply("shift_common(v)", ToRep(s, r[1], r[2]), W(s, D, "exact", v))
       \/ LET r == ShiftAuto(s, c, P0) IN Apply("shift_common()", ToRep(s, r[1], r[2]), W(s, D, ModalOrAny(D), 0))
       \/ \E m \in 0..2, oc \in CVals : \E od \in [Cells(<<m>> \o Tail(s)) -> Vals] :
            LET os == <<m>> \o Tail(s)  dd == Concat(D, s, od, os) IN
            Apply("append", AppendAlg(s, c, P0, os, oc, RepPairs(od, os, oc)), W(ConcatShape(s, os), dd, ModalOrAny(dd), 0))
       \/ \E cells \in CellsArgs : Apply("update", UpdateAlg(s, c, P0, cells), W(s, Assign(D, cells), "exact", c))
       \/ Apply("update(self)", UpdateSelfAlg(s, c, P0, Snapshot), W(s, D, "exact", c))
       \/ LET os == s  dd == Concat(D, s, D, s) IN          \* append(self): concatenate([A, A])
            Apply("append(self)", AppendAlg(s, c, P0, os, c, P0), W(ConcatShape(s, os), dd, ModalOrAny(dd), 0))
       \/ \E mask \in [1..s[1] -> BOOLEAN] :
            LET dd == SelectRows(D, s, mask) IN
            Apply("filtered", FilteredAlg(s, c, P0, mask), W(FilterShape(s, mask), dd, ModalOrAny(dd), 0))
       \/ \E m \in MapsOK, sh \in BOOLEAN :
            Apply("reindexed", ReindexedAlg(s, c, P0, m, sh), W(s, MapDense(D, m), "exact-or-modal", Lookup(m, c, c)))
       \/ LET m == DefaultMapping(ToRep(s, c, P0)) IN
            Apply("reindexed()", ReindexedAlg(s, c, P0, m, TRUE), W(s, MapDense(D, m), "exact-or-modal", Lookup(m, c, c)))
       \/ Len(s) = 2 /\ \E prec \in Precs, m \in {<<>>, <<<<1, 0>>>>, <<<<2, 3>>, <<0, 1>>>>} :
            LET dd == Collapse(D, s, prec, m) IN
            Apply("collapsed", CollapsedAlg(s, c, P0, prec, m), W(<<s[1]>>, dd, ModalOrAny(dd), 0))
       \/ Len(s) = 2 /\ \E o \in Orders :
            Apply("sliced", SlicedAlg(s, c, P0, o), W(SliceShape(s, <<o>>), Sliced(D, s, <<o>>), "exact", c))
       \/ s[1] <= 2 /\ \E oc \in CVals, nc \in CVals : \E od \in [Cells(<<s[1]>>) -> Vals] :
            LET os == <<s[1]>> IN
            Apply("column_stack", ColumnStackAlg(s, c, P0, os, oc, RepPairs(od, os, oc), nc),
                  W(<<s[1], NCol(s) + 1>>, ColumnStack(<<D, od>>, <<s, os>>), "exact", nc)) )
Spec == Init /\ [][Next]_vars

Refines ==
  phase < 3 \/
  ( /\ WF(res)
    /\ res.shape = want.shape
    /\ Abs(res) = want.D
    /\ CASE want.ck = "exact" -> res.common = want.cv
         [] want.ck = "modal" -> Modal(Abs(res), res.common)
         [] want.ck = "exact-or-modal" -> res.common = want.cv \/ Modal(Abs(res), res.common)
         [] OTHER -> TRUE )
=============================================================================
