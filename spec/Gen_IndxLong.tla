---------------------------- MODULE Gen_IndxLong ----------------------------
(* L2 generator (C11 reader side): files laid out by the specification whose   *)
(* row ids are written with 1- and 2-byte words and whose *total* number of    *)
(* row ids exceeds what such a word can count (255 / 65535) - the layout an    *)
(* independent writer picks for many short row-id arrays over few rows.        *)
EXTENDS Indx, Json
CONSTANT Big2        \* TRUE: also the 2-byte case (two entries of 40000 and 30000 rows)

RowsTo(n) == [j \in 1..n |-> FromNat(j - 1)]
Ent(v, n) == [c |-> <<FromNat(v)>>, r |-> RowsTo(n)]
X(ns) == [arity |-> 1, common |-> <<>>, ents |-> [j \in DOMAIN ns |-> Ent(j, ns[j])]]

\* non-recursive layout of the row-id section (sequences of tens of thousands of words)
RowBytes(r, w) == [q \in 1..(Len(r) * w) |-> LE(r[((q - 1) \div w) + 1], w)[((q - 1) % w) + 1]]
EncodeLong(x, iws, rws) ==
  LET n == Len(x.ents)
      head == <<x.arity>> \o LE(FromNat(n), 4) \o <<iws>> \o LE(x.common, iws)
              \o Cat([e \in 1..n |-> LE(x.ents[e].c[1], iws)]) \o <<rws>>
              \o Cat([e \in 1..n |-> LE(FromNat(Len(x.ents[e].r)), rws)])
      p == head \o Cat([e \in 1..n |-> RowBytes(x.ents[e].r, rws)])
  IN Magic \o LE(FromNat(Len(p)), 8) \o p

Cases == {<<<<200, 100>>, 1, 1>>, <<<<130, 130, 40>>, 2, 1>>, <<<<255, 1, 3>>, 1, 1>>, <<<<250, 7>>, 1, 2>>}
         \cup (IF Big2 THEN {<<<<40000, 30000>>, 1, 2>>} ELSE {})

VARIABLE k
Init == k \in Cases
Next == UNCHANGED k
Spec == Init /\ [][Next]_k
Emit == PrintT(<<"CASE", ToJson([x |-> X(k[1]), iws |-> k[2], rws |-> k[3], bytes |-> EncodeLong(X(k[1]), k[2], k[3]), alt |-> <<>>])>>)
\* the fast layout is the documented layout
SameAsEncode == Len(k[1]) > 2 \/ k[1][1] > 1000 \/ EncodeLong(X(k[1]), k[2], k[3]) = Encode(X(k[1]), 1, k[2], k[3])
=============================================================================
