----------------------------- MODULE Gen_IIndex -----------------------------
(* L2 generator for C06 / C07 / C15: random walks (TLC -simulate) through the  *)
(* contract-level state machine of one index - dense array D, shape s, common  *)
(* value c - under its mutating operations and transformed copies that replace *)
(* it.  Arguments are absolute (masks, mappings, cell lists, operand arrays),   *)
(* so the harness can replay a walk on a live object of the real library and    *)
(* compare the projected state after every action.  Library-chosen commons     *)
(* follow the code's tie-break so walk and code stay in lock-step; the harness  *)
(* still accepts any modal value.                                              *)
EXTENDS IIndexAlg, Json
CONSTANTS MaxRows, MaxLen

Vals == 0..2
CVals == 0..3
VARIABLES s, D, c, hist
vars == <<s, D, c, hist>>

Pairs(dd, sh, cc) == SetToSeq(RepPairs(dd, sh, cc))
Post(sh, dd, cc) == [shape |-> sh, common |-> cc, ents |-> Pairs(dd, sh, cc)]
Log(op, args, sh, dd, cc) == hist' = Append(hist, [op |-> op, args |-> args, post |-> Post(sh, dd, cc)])
Auto(sh, dd, cc) == AutoCommon(sh, cc, RepPairs(dd, sh, cc))

Shapes == {<<n>> : n \in 0..MaxRows} \cup {<<n, 2>> : n \in 0..MaxRows}
Init == \E sh \in Shapes : \E dd \in [Cells(sh) -> Vals], cc \in CVals :
           s = sh /\ D = dd /\ c = cc /\ hist = <<[op |-> "init", args |-> <<>>, post |-> Post(sh, dd, cc)]>>

MapsG == {<<<<a, b>>>> : a, b \in CVals} \cup {<<<<0, a>>, <<1, b>>, <<2, d>>>> : a, b, d \in CVals}
Go(sh, dd, cc) == s' = sh /\ D' = dd /\ c' = cc

Next ==
  /\ Len(hist) <= MaxLen
  /\ \/ \E v \in CVals : Go(s, D, v) /\ Log("shift_common", [v |-> v, hasv |-> TRUE], s, D, v)
     \/ LET v == Auto(s, D, c) IN Go(s, D, v) /\ Log("shift_common", [v |-> 0, hasv |-> FALSE], s, D, v)
     \/ s[1] < MaxRows /\ \E m \in 0..1, oc \in CVals : \E od \in [Cells(<<m>> \o Tail(s)) -> Vals] :
          LET os == <<m>> \o Tail(s)  ns == ConcatShape(s, os)  dd == Concat(D, s, od, os)  v == Auto(ns, dd, c)
              \* the code first merges other's rows into self (common c), then normalises
          IN Go(ns, dd, v) /\ Log("append", [other |-> Post(os, od, oc)], ns, dd, v)
     \/ s[1] > 0 /\ \E v \in CVals, col \in Cols(s), R \in (SUBSET (0..(s[1] - 1))) \ {{}} :
          LET cells == <<[k |-> ColKey(s, v, col), rows |-> SortedSeq(R)]>>  dd == Assign(D, cells)
          IN Go(s, dd, c) /\ Log("update", [cells |-> cells], s, dd, c)
     \/ \E mask \in [1..s[1] -> BOOLEAN] :
          LET ns == FilterShape(s, mask)  dd == SelectRows(D, s, mask)  v == Auto(ns, dd, c)
          IN Go(ns, dd, v) /\ Log("filtered", [mask |-> mask], ns, dd, v)
     \/ \E m \in MapsG :
          LET dd == MapDense(D, m)  r == ReindexedAlg(s, c, RepPairs(D, s, c), m, TRUE)
          IN Go(s, dd, r.common) /\ Log("reindexed", [mapping |-> m], s, dd, r.common)
     \/ Go(s, D, c) /\ Log("copy", <<>>, s, D, c)
Spec == Init /\ [][Next]_vars
Emit == (Len(hist) = MaxLen + 1) => PrintT(<<"BEH", ToJson(hist)>>)
=============================================================================
