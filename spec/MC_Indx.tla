------------------------------- MODULE MC_Indx -------------------------------
(* L1 for C10/C11/C12 on the format itself (contract level):                  *)
(*   RoundTrip     Decode(Encode(x, iws, rws)) = x for every admissible iws   *)
(*                 >= SaverIws(x) and rws holding the row ids                 *)
(*   SizeField     bytes 9..16 = real payload length = PayloadLen formula     *)
(*   TornRejected  no proper prefix of a written file is accepted by the      *)
(*                 loader's acceptance logic (every cut point)                *)
(* and the writer state machine: chunks are written in the documented order   *)
(* and a crash can strike at any byte boundary.                               *)
EXTENDS Indx, Json
CONSTANTS Vals, RowVals, MaxEnts, Arities
ValsQuick == {<<>>, <<255>>, <<0, 1>>, <<0, 0, 1>>, Pow2m1(63)}
ValsAll == {<<>>, <<1>>, <<255>>, <<0, 1>>, Pow2m1(16), <<0, 0, 1>>, Pow2m1(32), Pow2(32), Pow2m1(63)}
RowValsQuick == {<<>>, <<1>>, Pow2m1(32)}
RowValsAll == {<<>>, <<1>>, <<2>>, Pow2m1(32)}
AritiesQuick == {1, 2}
AritiesAll == {1, 2, 3}
AritiesOne == {1}

\* strictly increasing row-id arrays of length 0..2 over RowVals
RowArrs == {<<>>} \cup {<<a>> : a \in RowVals} \cup {<<a, b>> : <<a, b>> \in {p \in RowVals \X RowVals : BLess(p[1], p[2])}}
Coords(a) == [1..a -> Vals]

VARIABLES x, phase, iws, rws, full, k
vars == <<x, phase, iws, rws, full, k>>
\* full = the complete file the writer is producing (computed once); k = bytes that reached the disk
disk == SubSeq(full, 1, k)

Init == /\ phase = "arity" /\ x = [arity |-> 1, common |-> <<>>, ents |-> <<>>]
        /\ iws = 1 /\ rws = 4 /\ full = <<>> /\ k = 0

AB(xx) == IF Len(xx.ents) = 0 THEN 0 ELSE xx.arity

Next ==
  \/ phase = "arity" /\ \E a \in Arities, c \in Vals : x' = [x EXCEPT !.arity = a, !.common = c]
        /\ phase' = "ents" /\ UNCHANGED <<iws, rws, full, k>>
  \/ phase = "ents" /\ Len(x.ents) < MaxEnts
        /\ \E c \in Coords(x.arity), r \in RowArrs :
              /\ \A e \in DOMAIN x.ents : x.ents[e].c # c
              /\ x' = [x EXCEPT !.ents = Append(x.ents, [c |-> c, r |-> r])]
        /\ UNCHANGED <<phase, iws, rws, full, k>>
  \/ phase = "ents" /\ \E w \in WordSizes, v \in WordSizes :
        /\ IwsOK(x, w) /\ RwsOK(x, v) /\ iws' = w /\ rws' = v
        /\ full' = Encode(x, AB(x), w, v)
        /\ phase' = "file" /\ UNCHANGED <<x, k>>
  \* the writer: one more byte reaches the disk per step; a crash (stuttering forever) may strike anywhere
  \/ phase = "file" /\ k < Len(full) /\ k' = k + 1 /\ UNCHANGED <<x, phase, iws, rws, full>>
Spec == Init /\ [][Next]_vars

RoundTrip == (phase = "file" /\ k = 0) => SameData(Decode(full), x)
SizeField == (phase = "file" /\ k = 0) =>
   LET p == Payload(x, AB(x), iws, rws) IN
   /\ Word(full, 8, 8) = FromNat(Len(p))
   /\ FromNat(Len(p)) = PayloadLen(AB(x), Len(x.ents), iws, rws, [e \in DOMAIN x.ents |-> FromNat(Len(x.ents[e].r))])
TornRejected == (phase = "file" /\ k < Len(full)) => ~Accepts(disk)
CompleteAccepted == (phase = "file" /\ k = Len(full)) => Accepts(disk)
SaverNarrowest == (phase = "file" /\ k = 0) => (IwsOK(x, iws) => iws >= SaverIws(x)) /\ IwsOK(x, SaverIws(x))

\* ---- L2 generator: files laid out by this specification, for the real loader -----------------
EmitReadCase == (phase = "file" /\ k = 0) =>
  PrintT(<<"CASE", ToJson([x |-> x, iws |-> iws, rws |-> rws, bytes |-> full,
                           alt |-> IF Len(x.ents) = 0 THEN Encode(x, x.arity, iws, rws) ELSE <<>>])>>)
HeaderOnly == k = 0
=============================================================================
