SPECIFICATION Spec
CONSTANTS MaxRows1 = 3
 MaxRows2 = 2
INVARIANT Refines
