SPECIFICATION Spec
CONSTANTS MaxRows1 = 3
 MaxRows2 = 2
 Snapshot = TRUE
INVARIANT Refines
