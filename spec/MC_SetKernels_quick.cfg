SPECIFICATION Spec
CONSTANTS U = 5
 UM = 3
 K = 3
INVARIANT NoOOB
INVARIANT WithinCap
INVARIANT ResultIsContract
INVARIANT ManyIsContract
INVARIANT ResultStrict
PROPERTY Terminates
