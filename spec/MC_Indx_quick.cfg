SPECIFICATION Spec
CONSTANTS
 Vals <- ValsQuick
 RowVals <- RowValsQuick
 MaxEnts = 1
 Arities <- AritiesQuick
INVARIANT RoundTrip
INVARIANT SizeField
INVARIANT TornRejected
INVARIANT CompleteAccepted
INVARIANT SaverNarrowest
