SPECIFICATION Spec
CONSTANTS N = 3
 E = 2
 ND = 3
INVARIANT WalkIsContract
INVARIANT CubeIsContract
