-------------------------------- MODULE Rat --------------------------------
(* Exact rational arithmetic over TLC's 32-bit integers: <<num, den>> with    *)
(* den > 0 and gcd 1.  Every operation cross-reduces before multiplying so    *)
(* that intermediate products stay small for the data ranges the drivers use. *)
EXTENDS Integers, Sequences, FiniteSets, FiniteSetsExt

RAbs(x) == IF x < 0 THEN -x ELSE x
RECURSIVE GCD(_,_)
GCD(a, b) == IF b = 0 THEN a ELSE GCD(b, a % b)

Norm(n, d) ==
  IF n = 0 THEN <<0, 1>>
  ELSE LET g == GCD(RAbs(n), RAbs(d))
           s == IF d < 0 THEN -1 ELSE 1
       IN <<s * (n \div g), s * (d \div g)>>
R(n) == <<n, 1>>
RZero == <<0, 1>>
ROne == <<1, 1>>
RNeg(a) == <<-a[1], a[2]>>
RAdd(a, b) == LET g == GCD(a[2], b[2]) IN Norm(a[1] * (b[2] \div g) + b[1] * (a[2] \div g), (a[2] \div g) * b[2])
RSub(a, b) == RAdd(a, RNeg(b))
RMul(a, b) ==
  IF a[1] = 0 \/ b[1] = 0 THEN RZero
  ELSE LET g1 == GCD(RAbs(a[1]), b[2])  g2 == GCD(RAbs(b[1]), a[2])
       IN <<(a[1] \div g1) * (b[1] \div g2), (a[2] \div g2) * (b[2] \div g1)>>
RInv(a) == IF a[1] < 0 THEN <<-a[2], -a[1]>> ELSE <<a[2], a[1]>>
RDiv(a, b) == RMul(a, RInv(b))
RLess(a, b) == a[1] * b[2] < b[1] * a[2]
RLeq(a, b) == a[1] * b[2] <= b[1] * a[2]
RFloor(a) == a[1] \div a[2]                       \* floor, also for negatives (TLA+ \div floors)
RIsNorm(a) == a[2] > 0 /\ GCD(RAbs(a[1]), a[2]) = 1
RFromJson(j) == Norm(j[1], j[2])

\* sum of f(x) over a finite set
RSum(S, f(_)) == FoldSet(LAMBDA x, acc : RAdd(acc, f(x)), RZero, S)
=============================================================================
