SPECIFICATION Spec
CONSTANTS T = 5
 P = 3
 F = 2
 Guarded = TRUE
 Kinds = {"exception"}
 Serial = FALSE
 FaultSets <- AllFaultSets
INVARIANT ScheduleIndependent
INVARIANT WriteSetsDisjoint
INVARIANT RaisesIffFaultConsulted
INVARIANT ConsultedAtMostOnce
INVARIANT SecondRunClean
PROPERTY Terminates
