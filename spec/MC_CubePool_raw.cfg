SPECIFICATION Spec
CONSTANTS T = 5
 P = 2
 F = 1
 Guarded = FALSE
 Kinds = {"exception", "base", "stop"}
 Serial = FALSE
 FaultSets <- UpToTwoFaults
INVARIANT WriteSetsDisjoint
INVARIANT ConsultedAtMostOnce
INVARIANT RawPoolFacts
CHECK_DEADLOCK FALSE
