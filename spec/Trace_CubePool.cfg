SPECIFICATION TSpec
