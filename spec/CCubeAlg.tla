------------------------------ MODULE CCubeAlg ------------------------------
(* Algorithm layer of the index cube (ccubes.py / ffuncs.py), checked against  *)
(* the brute-force contract for EVERY choice of common value per dimension     *)
(* (C02, C03, C04, C05, C14 at the level of the design):                        *)
(*   - Walk:      the _walk recursion over uncommon entries with -1 margins     *)
(*   - Regions:   working arrays with one extra (margin) index per axis, the    *)
(*                corner initialised from all rows, one fill per delivery       *)
(*   - DiffAll:   _compute_common_cells_from_marginal_diffs, one axis at a time *)
(*   - counters:  sums / valid counts / missing counts and the reduce rule      *)
(*                (valid = 0) or, when propagating, (missing # 0)               *)
EXTENDS Integers, Sequences, FiniteSets, FiniteSetsExt, SequencesExt, TLC, Json
CONSTANTS N,       \* rows
          E,       \* extent of every dimension (categories 0..E-1; common may also be E = absent)
          ND       \* number of dimensions

Rows == 1..N
Dims == 1..ND
VARIABLES data, commons, fvalid, phase
vars == <<data, commons, fvalid, phase>>
X(r) == r + 1                         \* the fact value of row r (any injective positive choice)

\* entries of dimension d: uncommon value -> set of rows
Ent(d) == [v \in {data[d][r] : r \in Rows} \ {commons[d]} |-> {r \in Rows : data[d][r] = v}]

\* ccubes.py _walk; hasBase = FALSE stands for `base_rowids is None`
RECURSIVE WalkR(_,_,_,_)
WalkR(d, bc, hasBase, br) ==
  LET e == Ent(d)
      inter(v) == IF hasBase THEN br \cap e[v] ELSE e[v]
  IN IF d < ND
     THEN UNION {IF ~hasBase \/ inter(v) # {} THEN WalkR(d + 1, Append(bc, v), TRUE, inter(v)) ELSE {} : v \in DOMAIN e}
          \cup WalkR(d + 1, Append(bc, -1), hasBase, br)
     ELSE {<<Append(bc, v), inter(v)>> : v \in {u \in DOMAIN e : inter(u) # {}}}
          \cup (IF hasBase /\ br # {} THEN {<<Append(bc, -1), br>>} ELSE {})
Delivered == WalkR(1, <<>>, FALSE, {})

\* contract for the walk (C14)
Coords == {c \in [Dims -> -1..E] : /\ \E d \in Dims : c[d] # -1
                                   /\ \A d \in Dims : c[d] = -1 \/ (c[d] # commons[d] /\ \E r \in Rows : data[d][r] = c[d])}
RowsOf(c) == {r \in Rows : \A d \in Dims : c[d] = -1 \/ data[d][r] = c[d]}
Expected == {<<c, RowsOf(c)>> : c \in {x \in Coords : RowsOf(x) # {}}}

\* working regions: index Sh on an axis is the margin; interacting shape is Sh (so an absent common E has a cell)
Sh == E + 1
Work == [Dims -> 0..Sh]
Corner == [d \in Dims |-> Sh]
Cell(c) == [d \in Dims |-> IF c[d] = -1 THEN Sh ELSE c[d]]
\* one region, filled with f(rows) per delivery, corner f(all rows)
Filled(Del, f(_)) ==
  [w \in Work |-> IF w = Corner THEN f(Rows)
                  ELSE IF \E x \in Del : Cell(x[1]) = w THEN f((CHOOSE x \in Del : Cell(x[1]) = w)[2]) ELSE 0]
SumAxis(Rg, w, a) == FoldSet(LAMBDA k, acc : acc + Rg[[w EXCEPT ![a] = k]], 0, 0..(Sh - 1))
Diff(Rg, a) == [w \in Work |-> IF w[a] = commons[a] THEN Rg[[w EXCEPT ![a] = Sh]] - SumAxis(Rg, w, a) ELSE Rg[w]]
RECURSIVE DiffAll(_,_)
DiffAll(Rg, a) == IF a > ND THEN Rg ELSE DiffAll(Diff(Rg, a), a + 1)
Marginless == [Dims -> 0..(Sh - 1)]

\* what each region counts
FCount(S) == Cardinality(S)
FValid(S) == Cardinality({r \in S : fvalid[r]})
FMissing(S) == Cardinality(S) - FValid(S)
FSum(S) == FoldSet(LAMBDA r, acc : acc + X(r), 0, {r \in S : fvalid[r]})

\* brute force (the contract)
CellRows(w) == {r \in Rows : \A d \in Dims : data[d][r] = w[d]}

CountOK(Del) == LET R1 == DiffAll(Filled(Del, FCount), 1) IN \A w \in Marginless : R1[w] = Cardinality(CellRows(w))
SumOK(Del) ==
  LET S1 == DiffAll(Filled(Del, FSum), 1)
      V1 == DiffAll(Filled(Del, FValid), 1)
      M1 == DiffAll(Filled(Del, FMissing), 1)
  IN \A w \in Marginless :
       LET RR == CellRows(w)  V == {r \in RR : fvalid[r]} IN
       /\ S1[w] = FSum(RR)
       \* ignore_missing: missing iff no valid row;  propagate: missing iff no valid row or any missing row
       /\ (V1[w] = 0) = (V = {})
       /\ ((V1[w] = 0) \/ (M1[w] # 0)) = (V = {} \/ V # RR)

Init == phase = 0 /\ data = [d \in Dims |-> [r \in Rows |-> 0]] /\ commons = [d \in Dims |-> 0] /\ fvalid = [r \in Rows |-> TRUE]
Next == \/ phase = 0 /\ phase' = 1 /\ data' \in [Dims -> [Rows -> 0..(E - 1)]] /\ UNCHANGED <<commons, fvalid>>
        \/ phase = 1 /\ phase' = 2 /\ commons' \in [Dims -> 0..E] /\ UNCHANGED <<data, fvalid>>
        \/ phase = 2 /\ phase' = 3 /\ fvalid' \in [Rows -> BOOLEAN] /\ UNCHANGED <<data, commons>>
Spec == Init /\ [][Next]_vars

WalkIsContract == phase < 2 \/ Delivered = Expected
CubeIsContract == phase < 3 \/ LET Del == Delivered IN CountOK(Del) /\ SumOK(Del)

\* L2 generator: every configuration of the small scope, for the real cubes (exhaustive small scope on the code too)
EmitCase == phase < 3 \/ PrintT(<<"CASE", ToJson([data |-> data, commons |-> commons, fvalid |-> fvalid])>>)
=============================================================================
