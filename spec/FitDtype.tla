----------------------------- MODULE FitDtype -----------------------------
(* C19: the integer dtype chosen from (max, min).                            *)
(*  Narrowest = contract: narrowest NumPy integer type of the right          *)
(*              signedness that contains both bounds.                        *)
(*  Ladder    = algorithm layer: the if/elif ladder of iindexes.fit_dtype,   *)
(*              one disjunct per branch, thresholds as written in the code.  *)
EXTENDS Big, TLC

\* effective minimum: fit_dtype(maxval, minval=0) treats a negative maxval with the
\* default minval as the minimum ("negative side uses more bits")
EffMin(mx, mn) == IF ZIsNeg(mx) /\ ~ZIsNeg(mn) /\ mn.mag = <<>> THEN mx ELSE mn

Signed(mx, mn) == ZIsNeg(EffMin(mx, mn))

\* does the signed k-bit type contain z ?
InSigned(z, k)   == IF ZIsNeg(z) THEN BLeq(z.mag, Pow2(k - 1)) ELSE BLess(z.mag, Pow2(k - 1))
InUnsigned(z, k) == ~ZIsNeg(z) /\ BLess(z.mag, Pow2(k))

Widths == {8, 16, 32, 64}
Name(signed, k) == IF signed
                   THEN (CASE k = 8 -> "int8" [] k = 16 -> "int16" [] k = 32 -> "int32" [] OTHER -> "int64")
                   ELSE (CASE k = 8 -> "uint8" [] k = 16 -> "uint16" [] k = 32 -> "uint32" [] OTHER -> "uint64")

\* the property's domain: min <= 0, min <= max, and some NumPy integer type holds both
InDomain(mx, mn) ==
  /\ ~ZLess(ZZero, mn)
  /\ ZLeq(mn, mx) \/ (ZIsNeg(mx) /\ mn = ZZero)
  /\ IF Signed(mx, mn) THEN InSigned(EffMin(mx, mn), 64) /\ InSigned(mx, 64)
                       ELSE InUnsigned(mx, 64)

Fits(signed, k, mx, mn) ==
  IF signed THEN InSigned(EffMin(mx, mn), k) /\ InSigned(mx, k) ELSE InUnsigned(mx, k)

Narrowest(mx, mn) ==
  LET s == Signed(mx, mn)
      k == CHOOSE w \in Widths : Fits(s, w, mx, mn) /\ \A v \in Widths : v < w => ~Fits(s, v, mx, mn)
  IN Name(s, k)

\* ---- algorithm layer: iindexes.py fit_dtype, branch by branch -------------------------
ZN(k)  == Z(TRUE, Pow2(k))        \* -(2 ** k)
ZP1(k) == Z(FALSE, Pow2m1(k))     \* 2 ** k - 1
ZP(k)  == Z(FALSE, Pow2(k))       \* 2 ** k
Ladder(mx, mn) ==
  LET minval == EffMin(mx, mn) IN
  IF ZIsNeg(minval) THEN
       IF ZLess(minval, ZN(31)) THEN "int64"
       ELSE IF ZLess(ZP1(31), mx) THEN "int64"
       ELSE IF ZLess(minval, ZN(15)) THEN "int32"
       ELSE IF ZLess(ZP1(15), mx) THEN "int32"
       ELSE IF ZLess(minval, ZN(7)) THEN "int16"
       ELSE IF ZLess(ZP1(7), mx) THEN "int16"
       ELSE "int8"
  ELSE IF ~ZLess(mx, ZP(32)) THEN "uint64"
       ELSE IF ~ZLess(mx, ZP(16)) THEN "uint32"
       ELSE IF ~ZLess(mx, ZP(8)) THEN "uint16"
       ELSE "uint8"

=============================================================================
