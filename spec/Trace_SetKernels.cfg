SPECIFICATION TSpec
