---------------------------- MODULE MC_SetKernels ----------------------------
(* L1: every pair of strictly increasing sequences over 0..U-1 (all subsets),  *)
(* all three two-way kernels, every exhaustion order; every list of up to K    *)
(* subsets of 0..UM-1 for the multi-way union.                                 *)
EXTENDS SetKernels, TLC
CONSTANTS U, UM, K

Univ == 0..(U - 1)
Seqs == {Sorted(S) : S \in SUBSET Univ}
SeqsM == {Sorted(S) : S \in SUBSET (0..(UM - 1))}

VARIABLES m, phase
vars == <<m, phase>>

Init == phase = "op" /\ m = Start("inter", <<>>, <<>>)
Next ==
  \/ phase = "op" /\ \E op \in {"inter", "union", "diff", "many"} :
        /\ m' = [Start("inter", <<>>, <<>>) EXCEPT !.op = op] /\ phase' = IF op = "many" THEN "many0" ELSE "A"
  \/ phase = "A" /\ \E A \in Seqs : m' = [m EXCEPT !.A = A] /\ phase' = "B"
  \/ phase = "B" /\ \E B \in Seqs : m' = Start(m.op, m.A, B) /\ phase' = "run"
  \/ phase = "run" /\ m.pc # "done" /\ m' = Step(m) /\ UNCHANGED phase
  \* multi-way union: lists are built element by element (up to K arrays), then run
  \/ phase = "many0" /\ m' = [arrs |-> <<>>] /\ phase' = "manyL"
  \/ phase = "manyL" /\ Len(m.arrs) < K /\ \E A \in SeqsM : m' = [arrs |-> Append(m.arrs, A)] /\ UNCHANGED phase
  \/ phase = "manyL" /\ m' = StartMany(m.arrs) /\ phase' = "manyrun"
  \/ phase = "manyrun" /\ m.pc # "done" /\ m' = StepMany(m) /\ UNCHANGED phase
Spec == Init /\ [][Next]_vars /\ WF_vars(Next)

NoOOB == phase \in {"run", "manyrun"} => ~m.oob
WithinCap == phase \in {"run", "manyrun"} => Len(m.res) <= m.cap
ResultIsContract == (phase = "run" /\ m.pc = "done") => m.ret = Contract(m.op, m.A, m.B)
ManyIsContract == (phase = "manyrun" /\ m.pc = "done") => m.ret = CUnionMany(m.input)
ResultStrict == (phase \in {"run", "manyrun"} /\ m.pc = "done") => StrictlyInc(m.ret)
Terminates == <>(phase \in {"run", "manyrun"} /\ m.pc = "done")
=============================================================================
