SPECIFICATION Spec
CONSTANT Ks <- KsAll
INVARIANT LadderIsNarrowest
INVARIANT ContractContains
