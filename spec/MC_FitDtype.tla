---------------------------- MODULE MC_FitDtype ----------------------------
(* L1: exhaustive check, over the partition points, that the algorithm layer  *)
(* (Ladder) equals the contract (Narrowest) on the property's domain.         *)
(* The choice of (mx, mn) is spread over two steps so that all TLC workers    *)
(* share the evaluation (initial states are computed by a single worker).     *)
EXTENDS FitDtype
CONSTANT Ks
KsAll == 0..64
KsQuick == {0, 1, 7, 8, 9, 15, 16, 17, 31, 32, 33, 63, 64}
Mags == UNION {{Pow2(k), Pow2m1(k), Inc(Pow2(k))} : k \in Ks} \cup {<<>>, <<3>>, <<100>>}
Points == {Z(FALSE, m) : m \in Mags} \cup {Z(TRUE, m) : m \in Mags \ {<<>>}}

VARIABLES mx, mn, phase
vars == <<mx, mn, phase>>
Init == mx = ZZero /\ mn = ZZero /\ phase = 0
Next == \/ phase = 0 /\ phase' = 1 /\ mx' \in Points /\ UNCHANGED mn
        \/ phase = 1 /\ phase' = 2 /\ mn' \in Points /\ UNCHANGED mx
Spec == Init /\ [][Next]_vars

LadderIsNarrowest == (phase = 2 /\ InDomain(mx, mn)) => Ladder(mx, mn) = Narrowest(mx, mn)
\* sanity of the contract itself: the chosen type contains both bounds
ContractContains ==
  (phase = 2 /\ InDomain(mx, mn)) =>
  LET n == Narrowest(mx, mn) IN
  \E s \in BOOLEAN, k \in Widths : n = Name(s, k) /\ Fits(s, k, mx, mn) /\ s = Signed(mx, mn)
=============================================================================
