------------------------------- MODULE IIndex -------------------------------
(* Contract layer for the inverted index (C01, C06, C07, C15, index part of   *)
(* C17): what a dense array is, what a representation (shape, common,         *)
(* entries) stands for, when it is well-formed, and what every operation of   *)
(* iindexes.py does *to the dense array*.  Nothing here mentions how the      *)
(* code computes.                                                             *)
(*                                                                            *)
(*   rep   = [shape |-> <<n, c2, ..>>, common |-> v,                          *)
(*            ents  |-> << [k |-> <<v, c2, ..>>, rows |-> <<r, ..>>], .. >>]  *)
(*   dense = function  Cells(shape) -> value   (cells are 0-based tuples)     *)
EXTENDS Integers, Sequences, FiniteSets, FiniteSetsExt, SequencesExt, Functions, TLC

RangeOf(f) == {f[x] : x \in DOMAIN f}
InSeq(x, s) == \E j \in DOMAIN s : s[j] = x
StrictInc(s) == \A j \in 1..(Len(s) - 1) : s[j] < s[j + 1]
SeqSet(s) == {s[j] : j \in DOMAIN s}
SortedSeq(S) == SetToSortSeq(S, <)

\* ---- cells and dense arrays -----------------------------------------------------------------
Cells(s) ==
  CASE Len(s) = 1 -> {<<r>> : r \in 0..(s[1] - 1)}
    [] Len(s) = 2 -> {<<r, c>> : r \in 0..(s[1] - 1), c \in 0..(s[2] - 1)}
    [] Len(s) = 3 -> {<<r, c, d>> : r \in 0..(s[1] - 1), c \in 0..(s[2] - 1), d \in 0..(s[3] - 1)}
    [] OTHER -> {}
HigherCells(s) == Cells(<<1>> \o Tail(s))          \* one representative row: higher coordinates only
NCells(s) == Cardinality(Cells(s))

\* nested JSON list a of the given shape -> dense
FromNested(a, s) ==
  [cell \in Cells(s) |->
     CASE Len(s) = 1 -> a[cell[1] + 1]
       [] Len(s) = 2 -> a[cell[1] + 1][cell[2] + 1]
       [] OTHER      -> a[cell[1] + 1][cell[2] + 1][cell[3] + 1]]

\* ---- representation -> dense (the abstraction function) -----------------------------------
Abs(rep) ==
  [cell \in Cells(rep.shape) |->
     LET m == {e \in DOMAIN rep.ents : Tail(rep.ents[e].k) = Tail(cell) /\ InSeq(cell[1], rep.ents[e].rows)}
     IN IF m = {} THEN rep.common ELSE rep.ents[CHOOSE e \in m : TRUE].k[1]]

Count(D, v) == Cardinality({cell \in DOMAIN D : D[cell] = v})
Modal(D, v) == \A w \in RangeOf(D) : Count(D, w) <= Count(D, v)

\* ---- well-formedness, clause by clause (C07) -------------------------------------------------
WFClauses(rep) ==
  LET E == rep.ents  s == rep.shape  nd == Len(s) IN
  (IF \E e \in DOMAIN E : Len(E[e].k) # nd THEN {"C07:coordinate-arity"} ELSE {})
  \cup (IF \E e \in DOMAIN E : ~StrictInc(E[e].rows) THEN {"C07:rowids-not-strictly-increasing"} ELSE {})
  \cup (IF \E e \in DOMAIN E : \E j \in DOMAIN E[e].rows : E[e].rows[j] < 0 \/ E[e].rows[j] >= s[1]
        THEN {"C07:rowid-out-of-range"} ELSE {})
  \cup (IF \E e \in DOMAIN E : Len(E[e].k) = nd /\ \E d \in 2..nd : E[e].k[d] < 0 \/ E[e].k[d] >= s[d]
        THEN {"C07:coordinate-outside-shape"} ELSE {})
  \cup (IF \E e, f \in DOMAIN E : e # f /\ Tail(E[e].k) = Tail(E[f].k)
                                   /\ SeqSet(E[e].rows) \cap SeqSet(E[f].rows) # {}
        THEN {"C07:row-listed-under-two-values"} ELSE {})
  \cup (IF \E e \in DOMAIN E : E[e].k[1] = rep.common THEN {"C07:entry-under-common-value"} ELSE {})
  \cup (IF \E e \in DOMAIN E : Len(E[e].rows) = 0 THEN {"C07:empty-entry"} ELSE {})
  \cup (IF \E e \in DOMAIN E : ~E[e].u32 THEN {"C07:rowids-not-uint32"} ELSE {})
  \cup (IF \E e \in DOMAIN E : ~E[e].pyint THEN {"C07:numpy-typed-coordinate"} ELSE {})
  \cup (IF \E e, f \in DOMAIN E : e # f /\ E[e].k = E[f].k THEN {"C07:duplicate-key"} ELSE {})
WF(rep) == WFClauses(rep) = {}

\* the library's own comprehensive validator, as a predicate on representations
ValidatorAccepts(rep) ==
  LET E == rep.ents IN
  /\ \A e \in DOMAIN E : E[e].pyint /\ E[e].u32 /\ StrictInc(E[e].rows) /\ E[e].k[1] # rep.common
  /\ \A e, f \in DOMAIN E : (E[e].k[1] # E[f].k[1] /\ Tail(E[e].k) = Tail(E[f].k))
                              => SeqSet(E[e].rows) \cap SeqSet(E[f].rows) = {}

SameRep(a, b) == /\ a.shape = b.shape /\ a.common = b.common
                 /\ {<<a.ents[e].k, a.ents[e].rows>> : e \in DOMAIN a.ents} = {<<b.ents[e].k, b.ents[e].rows>> : e \in DOMAIN b.ents}
                 /\ Len(a.ents) = Len(b.ents)

\* ---- value mappings (sequence of <<from, to>> pairs) ---------------------------------------------
HasKey(m, x) == \E j \in DOMAIN m : m[j][1] = x
Lookup(m, x, dflt) == IF HasKey(m, x) THEN m[CHOOSE j \in DOMAIN m : m[j][1] = x][2] ELSE dflt
MapDense(D, m) == [cell \in DOMAIN D |-> Lookup(m, D[cell], D[cell])]

\* ---- dense semantics of every operation ----------------------------------------------------------
ConcatShape(s1, s2) == <<s1[1] + s2[1]>> \o Tail(s1)
Concat(D1, s1, D2, s2) ==
  [cell \in Cells(ConcatShape(s1, s2)) |->
     IF cell[1] < s1[1] THEN D1[cell] ELSE D2[<<cell[1] - s1[1]>> \o Tail(cell)]]

KeptRows(mask) == SortedSeq({r \in 0..(Len(mask) - 1) : mask[r + 1]})
FilterShape(s, mask) == <<Len(KeptRows(mask))>> \o Tail(s)
SelectRows(D, s, mask) ==
  LET kept == KeptRows(mask) IN
  [cell \in Cells(FilterShape(s, mask)) |-> D[<<kept[cell[1] + 1]>> \o Tail(cell)]]

\* orders: one per higher axis; o.t in {"none", "int", "list"}
RECURSIVE SliceTailShape(_,_)
SliceTailShape(os, ts) ==
  IF Len(os) = 0 THEN ts
  ELSE LET o == Head(os) IN
       CASE o.t = "int"  -> SliceTailShape(Tail(os), Tail(ts))
         [] o.t = "none" -> <<Head(ts)>> \o SliceTailShape(Tail(os), Tail(ts))
         [] OTHER        -> <<Len(o.l)>> \o SliceTailShape(Tail(os), Tail(ts))
RECURSIVE OldTail(_,_)
OldTail(os, nc) ==
  IF Len(os) = 0 THEN nc
  ELSE LET o == Head(os) IN
       CASE o.t = "int"  -> <<o.i>> \o OldTail(Tail(os), nc)
         [] o.t = "none" -> <<Head(nc)>> \o OldTail(Tail(os), Tail(nc))
         [] OTHER        -> <<o.l[Head(nc) + 1]>> \o OldTail(Tail(os), Tail(nc))
SliceShape(s, os) == <<s[1]>> \o SliceTailShape(os, Tail(s))
Sliced(D, s, os) == [cell \in Cells(SliceShape(s, os)) |-> D[<<cell[1]>> \o OldTail(os, Tail(cell))]]

\* cells: sequence of [k |-> <<v, c2..>>, rows |-> <<..>>]; each array cell listed at most once
Assign(D, cells) ==
  [cell \in DOMAIN D |->
     LET m == {j \in DOMAIN cells : Tail(cells[j].k) = Tail(cell) /\ InSeq(cell[1], cells[j].rows)}
     IN IF m = {} THEN D[cell] ELSE cells[CHOOSE j \in m : TRUE].k[1]]
AssignDisjoint(cells) ==
  \A a, b \in DOMAIN cells : (a # b /\ Tail(cells[a].k) = Tail(cells[b].k)) => SeqSet(cells[a].rows) \cap SeqSet(cells[b].rows) = {}

\* collapsed: 2-D receiver; per row the first listed value present among its (mapped) columns, else the last listed
Collapse(D, s, prec, m) ==
  [cell \in Cells(<<s[1]>>) |->
     LET present == {Lookup(m, D[<<cell[1], c>>], D[<<cell[1], c>>]) : c \in 0..(s[2] - 1)}
         hits == {j \in DOMAIN prec : prec[j] \in present}
     IN IF hits = {} THEN prec[Len(prec)] ELSE prec[Min(hits)]]

\* default re-indexing: the k-th smallest *listed* value -> k - 1. In a well-formed index the listed values are exactly
\* the values other than the common one that occur in the dense array, which is how the contract (a statement about
\* dense arrays) has to put it: an entry without rows lists nothing.
DefaultMapping(rep) ==
  LET listed == SortedSeq(RangeOf(Abs(rep)) \ {rep.common})
  IN [j \in DOMAIN listed |-> <<listed[j], j - 1>>]

\* column_stack of 1-D / 2-D inputs (dense arrays Ds with shapes ss)
RECURSIVE ColOffsets(_,_)
ColOffsets(ss, base) == IF Len(ss) = 0 THEN <<>>
                        ELSE <<base>> \o ColOffsets(Tail(ss), base + (IF Len(Head(ss)) = 1 THEN 1 ELSE Head(ss)[2]))
NCols(ss) == IF Len(ss) = 0 THEN 0 ELSE LET o == ColOffsets(ss, 0) IN o[Len(ss)] + (IF Len(ss[Len(ss)]) = 1 THEN 1 ELSE ss[Len(ss)][2])
ColumnStack(Ds, ss) ==
  LET offs == ColOffsets(ss, 0)
      width(j) == IF Len(ss[j]) = 1 THEN 1 ELSE ss[j][2]
  IN [cell \in Cells(<<ss[1][1], NCols(ss)>>) |->
        LET j == CHOOSE q \in DOMAIN ss : offs[q] <= cell[2] /\ cell[2] < offs[q] + width(q)
        IN IF Len(ss[j]) = 1 THEN Ds[j][<<cell[1]>>] ELSE Ds[j][<<cell[1], cell[2] - offs[j]>>]]

\* rows of one column (higher coordinates hc) that hold value v
RowsWith(D, s, hc, v) == SortedSeq({r \in 0..(s[1] - 1) : D[<<r>> \o hc] = v})

\* the unique well-formed representation of (D, common), as a set of <<key, rows>> pairs
RepPairs(D, s, common) ==
  {<<<<v>> \o Tail(hc), RowsWith(D, s, Tail(hc), v)>> :
      <<v, hc>> \in {p \in (RangeOf(D) \ {common}) \X HigherCells(s) : RowsWith(D, s, Tail(p[2]), p[1]) # <<>>}}
EntPairs(rep) == {<<rep.ents[e].k, rep.ents[e].rows>> : e \in DOMAIN rep.ents}

\* entry-wise set algebra of the three *_update methods, on entry pairs
OtherPairs(o) == {<<o[j].k, o[j].rows>> : j \in {q \in DOMAIN o : ~o[q].none}}
RowsOf(P, k) == IF \E p \in P : p[1] = k THEN SeqSet((CHOOSE p \in P : p[1] = k)[2]) ELSE {}
Keys(P) == {p[1] : p \in P}
Drop0(P) == {p \in P : p[2] # <<>>}
UnionUpd(P, Q) == Drop0({<<k, SortedSeq(RowsOf(P, k) \cup RowsOf(Q, k))>> : k \in Keys(P) \cup Keys(Q)})
\* intersection_update drops keys absent from `other` (all keys of other, None-valued or not, count as present);
\* a None value leaves the receiver's entry as it is
InterUpd(P, o) ==
  LET present == {o[j].k : j \in DOMAIN o}
      Q == OtherPairs(o)
  IN Drop0({<<k, IF k \in Keys(Q) THEN SortedSeq(RowsOf(P, k) \cap RowsOf(Q, k)) ELSE SortedSeq(RowsOf(P, k))>> :
              k \in Keys(P) \cap present})
DiffUpd(P, Q) == Drop0({<<k, SortedSeq(RowsOf(P, k) \ RowsOf(Q, k))>> : k \in Keys(P)})
=============================================================================
