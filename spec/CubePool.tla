------------------------------ MODULE CubePool ------------------------------
(* C16 / C20 (and the per-call part of C17): evaluation of the sub-cubes of    *)
(* a cube, serially or by a thread pool, with an interrupt callback consulted  *)
(* at the head of every sub-cube task.                                         *)
(*                                                                             *)
(* Mirrors ccubes.py:285-326 / xcubes.py:190-239 and CPython 3.12's            *)
(* multiprocessing.pool: pool.map cuts the task list into chunks of            *)
(* ceil(T / (4 P)) consecutive tasks and each chunk is run by one worker.      *)
(* Pool workers hand only ordinary Exceptions back to map(), so the cube wraps *)
(* every task: what a task raises is recorded, tasks that start afterwards are *)
(* skipped, and the first recorded failure is re-raised once map() returns.    *)
(*                                                                             *)
(* A task t consults the callback (Check), then performs its fills one by one  *)
(* (Fill), each writing the cell Addr(t, f) of the shared result regions; the  *)
(* cube hands every task a *view* of the regions prefixed by the task's own    *)
(* extra-axis coordinates, which is what makes the write sets disjoint.        *)
EXTENDS Integers, Sequences, FiniteSets, TLC

CONSTANTS T,        \* number of sub-cube tasks
          P,        \* pool size
          F,        \* fills per task
          Serial,   \* TRUE: the plain for-loop, no pool
          FaultSets,\* the sets of task indices at which the callback may raise (one is chosen initially)
          Guarded,  \* TRUE: the cube wraps every task (the code since the F22 repair); FALSE: tasks go to the pool bare
          Kinds     \* the classes of what the callback raises: "exception", "base" (not an Exception), "stop" (StopIteration)

Tasks == 1..T
Workers == 1..P
Ceil(a, b) == (a + b - 1) \div b
ChunkSize(t, p) == LET q == t \div (4 * p) IN IF t % (4 * p) = 0 THEN q ELSE q + 1
CS == ChunkSize(T, P)
NChunks == Ceil(T, CS)
ChunkTasks(c) == [j \in 1..(IF c * CS <= T THEN CS ELSE T - (c - 1) * CS) |-> (c - 1) * CS + j]

Addr(t, f) == <<t, f>>          \* the task's view: its own block of the regions
Val(t, f) == 10 * t + f
Cells == {Addr(t, f) : t \in Tasks, f \in 1..F}
SerialRegions == [c \in Cells |-> Val(c[1], c[2])]
Blank == [c \in Cells |-> 0]

\* What CPython 3.12's pool does with a task that raises depends on the class (multiprocessing/pool.py):
\*   worker(): `try: result = (True, func(*args)) except Exception as e: result = (False, e)` - an ordinary Exception
\*             ends the chunk (mapstar is one func call per chunk) and map() re-raises it once all chunks are in;
\*   mapstar(): `list(map(*args))` - a StopIteration raised by the task ends list() quietly: the rest of the chunk is
\*             dropped and nobody is told;
\*   anything that is not an Exception escapes worker(): the thread dies, its chunk is never reported, map() waits forever.
\* With Guarded = FALSE the model below is that raw pool (and the stand-in pool of harness/sched.py, which
\* bin/selftest compares with the real ThreadPool); with Guarded = TRUE the class makes no difference.
VARIABLES kind, faults, claimed, cur, consulted, regions, writes, failed, finished, outcome, round
vars == <<kind, faults, claimed, cur, consulted, regions, writes, failed, finished, outcome, round>>

Idle == [phase |-> "idle", chunk |-> 0, pos |-> 0, fills |-> 0]

Fresh(fs, r) ==
  /\ faults = fs /\ claimed = {} /\ cur = [w \in Workers |-> Idle] /\ consulted = <<>>
  /\ regions = Blank /\ writes = [c \in Cells |-> 0] /\ failed = <<>> /\ finished = {}
  /\ outcome = "running" /\ round = r
Init == \E fs \in FaultSets : \E k \in Kinds : kind = k /\ Fresh(fs, 1)

TaskOf(w) == ChunkTasks(cur[w].chunk)[cur[w].pos]

\* ---- pooled mode --------------------------------------------------------------------------------
Take(w) ==
  /\ ~Serial /\ outcome = "running" /\ cur[w].phase = "idle"
  /\ \E c \in 1..NChunks : c \notin claimed /\ (\A d \in 1..(c - 1) : d \in claimed)   \* FIFO task queue
        /\ claimed' = claimed \cup {c}
        /\ cur' = [cur EXCEPT ![w] = [phase |-> "check", chunk |-> c, pos |-> 1, fills |-> 0]]
  /\ UNCHANGED <<kind, faults, consulted, regions, writes, failed, finished, outcome, round>>

\* The cube wraps every task: a task that starts after a failure has been recorded is skipped, and whatever a
\* task raises (ordinary Exception or not) is recorded instead of reaching the pool's worker loop.
Advance(w) == IF cur[w].pos < Len(ChunkTasks(cur[w].chunk))
              THEN cur' = [cur EXCEPT ![w].phase = "check", ![w].pos = @ + 1] /\ UNCHANGED finished
              ELSE cur' = [cur EXCEPT ![w] = Idle] /\ finished' = finished \cup {cur[w].chunk}

Check(w) ==
  /\ outcome = "running" /\ cur[w].phase = "check"
  /\ LET t == TaskOf(w) IN
       /\ consulted' = Append(consulted, t)
       /\ IF t \notin faults
          THEN cur' = [cur EXCEPT ![w].phase = "fill", ![w].fills = 0] /\ UNCHANGED <<failed, finished>>
          ELSE IF Guarded
          THEN failed' = Append(failed, t) /\ Advance(w)      \* recorded; the worker goes on to its next task
          ELSE CASE kind = "exception" -> /\ failed' = Append(failed, t)           \* the chunk is abandoned and reported
                                          /\ cur' = [cur EXCEPT ![w] = Idle] /\ finished' = finished \cup {cur[w].chunk}
                 [] kind = "stop"      -> /\ UNCHANGED failed                       \* the chunk just ends
                                          /\ cur' = [cur EXCEPT ![w] = Idle] /\ finished' = finished \cup {cur[w].chunk}
                 [] OTHER              -> /\ UNCHANGED <<failed, finished>>          \* the worker thread dies
                                          /\ cur' = [cur EXCEPT ![w].phase = "dead"]
  /\ UNCHANGED <<kind, faults, claimed, regions, writes, outcome, round>>

\* a task that finds a recorded failure when it starts does nothing (the callback is not consulted)
SkipTask(w) ==
  /\ Guarded /\ outcome = "running" /\ cur[w].phase = "check" /\ failed # <<>>
  /\ Advance(w)
  /\ UNCHANGED <<kind, faults, claimed, consulted, regions, writes, failed, outcome, round>>

Fill(w) ==
  /\ outcome = "running" /\ cur[w].phase = "fill" /\ cur[w].fills < F
  /\ LET t == TaskOf(w)  f == cur[w].fills + 1 IN
       /\ regions' = [regions EXCEPT ![Addr(t, f)] = Val(t, f)]
       /\ writes' = [writes EXCEPT ![Addr(t, f)] = @ + 1]
       /\ cur' = [cur EXCEPT ![w].fills = f]
  /\ UNCHANGED <<kind, faults, claimed, consulted, failed, finished, outcome, round>>

EndTask(w) ==
  /\ outcome = "running" /\ cur[w].phase = "fill" /\ cur[w].fills = F
  /\ IF cur[w].pos < Len(ChunkTasks(cur[w].chunk))
     THEN cur' = [cur EXCEPT ![w].phase = "check", ![w].pos = @ + 1] /\ UNCHANGED finished
     ELSE cur' = [cur EXCEPT ![w] = Idle] /\ finished' = finished \cup {cur[w].chunk}
  /\ UNCHANGED <<kind, faults, claimed, consulted, regions, writes, failed, outcome, round>>

\* map returns (or re-raises the first recorded failure) once every chunk has finished
MapDone ==
  /\ ~Serial /\ outcome = "running" /\ finished = 1..NChunks
  /\ outcome' = IF failed = <<>> THEN "returned" ELSE "raised"
  /\ UNCHANGED <<kind, faults, claimed, cur, consulted, regions, writes, failed, finished, round>>

\* ---- serial mode: worker 1 walks the tasks in order; a raising callback propagates at once --------
SerialStart ==
  /\ Serial /\ outcome = "running" /\ cur[1].phase = "idle" /\ claimed = {}
  /\ claimed' = {0}
  /\ cur' = [cur EXCEPT ![1] = [phase |-> "scheck", chunk |-> 0, pos |-> 1, fills |-> 0]]
  /\ UNCHANGED <<kind, faults, consulted, regions, writes, failed, finished, outcome, round>>
SerialCheck ==
  /\ Serial /\ outcome = "running" /\ cur[1].phase = "scheck"
  /\ LET t == cur[1].pos IN
       /\ consulted' = Append(consulted, t)
       /\ IF t \in faults THEN failed' = <<t>> /\ outcome' = "raised" /\ UNCHANGED cur
                          ELSE cur' = [cur EXCEPT ![1].phase = "sfill", ![1].fills = 0] /\ UNCHANGED <<failed, outcome>>
  /\ UNCHANGED <<kind, faults, claimed, regions, writes, finished, round>>
SerialFill ==
  /\ Serial /\ outcome = "running" /\ cur[1].phase = "sfill" /\ cur[1].fills < F
  /\ LET t == cur[1].pos  f == cur[1].fills + 1 IN
       /\ regions' = [regions EXCEPT ![Addr(t, f)] = Val(t, f)]
       /\ writes' = [writes EXCEPT ![Addr(t, f)] = @ + 1]
       /\ cur' = [cur EXCEPT ![1].fills = f]
  /\ UNCHANGED <<kind, faults, claimed, consulted, failed, finished, outcome, round>>
SerialEndTask ==
  /\ Serial /\ outcome = "running" /\ cur[1].phase = "sfill" /\ cur[1].fills = F
  /\ IF cur[1].pos < T THEN cur' = [cur EXCEPT ![1].phase = "scheck", ![1].pos = @ + 1] /\ UNCHANGED outcome
                       ELSE outcome' = "returned" /\ UNCHANGED cur
  /\ UNCHANGED <<kind, faults, claimed, consulted, regions, writes, failed, finished, round>>

\* ---- the same cube and function objects are used again, uninterrupted (regions are per call) ------
Again ==
  /\ outcome # "running" /\ round = 1
  /\ kind' = kind /\ faults' = {} /\ claimed' = {} /\ cur' = [w \in Workers |-> Idle] /\ consulted' = <<>>
  /\ regions' = Blank /\ writes' = [c \in Cells |-> 0] /\ failed' = <<>> /\ finished' = {}
  /\ outcome' = "running" /\ round' = 2

Next == (\E w \in Workers : Take(w) \/ Check(w) \/ SkipTask(w) \/ Fill(w) \/ EndTask(w)) \/ MapDone
        \/ SerialStart \/ SerialCheck \/ SerialFill \/ SerialEndTask \/ Again
Spec == Init /\ [][Next]_vars /\ WF_vars(Next)

\* ---- properties -------------------------------------------------------------------------------------
SeqSet(s) == {s[j] : j \in DOMAIN s}
NoDup(s) == \A a, b \in DOMAIN s : a # b => s[a] # s[b]

\* C16: with no interrupt the pooled result is the serial result, whatever the interleaving
ScheduleIndependent == (outcome = "returned") => regions = SerialRegions
WriteSetsDisjoint == \A c \in Cells : writes[c] <= 1
\* C20
RaisesIffFaultConsulted ==
  /\ outcome = "raised" => (failed # <<>> /\ failed[1] \in faults /\ failed[1] \in SeqSet(consulted))
  /\ outcome = "returned" => (faults = {} /\ SeqSet(consulted) = Tasks)
ConsultedAtMostOnce == NoDup(consulted)
SecondRunClean == (round = 2 /\ outcome # "running") => (outcome = "returned" /\ regions = SerialRegions)
Terminates == <>(round = 2 /\ outcome # "running")

\* ---- what the raw pool does (Guarded = FALSE): why the cube must wrap its tasks (defect F22) -----------------
Dead == {w \in Workers : cur[w].phase = "dead"}
RawPoolFacts ==
  /\ Dead # {} => outcome = "running"                          \* a dead worker's chunk never finishes: map() hangs
  /\ (kind = "stop" /\ round = 1 /\ outcome # "running" /\ ~Serial) => outcome = "returned"  \* swallowed
  /\ (kind = "exception") => RaisesIffFaultConsulted           \* ordinary Exceptions were always propagated
  /\ (faults = {} \/ kind = "exception") => ScheduleIndependent
\* a state of the raw pool from which it can never return, and a silent loss, are both reachable:
RawNeverHangs == Dead = {}
RawNeverSilent == ~(round = 1 /\ outcome = "returned" /\ faults # {})
=============================================================================
