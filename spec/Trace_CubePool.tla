--------------------------- MODULE Trace_CubePool ---------------------------
(* L3 for C16 / C20: the task-level events of one real calculate() call        *)
(* (recorded under the deterministic scheduler with a global sequence number) *)
(* are replayed against the CubePool model: one TLC state per event.           *)
(*                                                                             *)
(* trace = [mode ("pool" | "serial"), P, T, CS, faults, events, outcome,       *)
(*          tagok, sameasserial, secondok, prop]                               *)
(* event = [e ("take" | "check" | "fill" | "end"), w, t (task or chunk), raised]*)
(* The number of fills per task is whatever the real sub-cube produced.        *)
EXTENDS Integers, Sequences, FiniteSets, TLC, Json, IOUtils

Trace == ndJsonDeserialize(IOEnv.TRACE_FILE)

VARIABLES i, l, st, err
tvars == <<i, l, st, err>>

Ceil(a, b) == (a + b - 1) \div b
NChunks(tr) == IF tr.CS < 1 THEN 0 ELSE Ceil(tr.T, tr.CS)     \* an explicit chunk size of 0 submits nothing
ChunkTasks(tr, c) == [j \in 1..(IF c * tr.CS <= tr.T THEN tr.CS ELSE tr.T - (c - 1) * tr.CS) |-> (c - 1) * tr.CS + j]
SeqSet(s) == {s[j] : j \in DOMAIN s}

Idle == [phase |-> "idle", chunk |-> 0, pos |-> 0]
St0(tr) == [claimed |-> {}, cur |-> [w \in 0..tr.P |-> Idle], consulted |-> {}, failed |-> <<>>, finished |-> {},
            stopped |-> FALSE]

\* CPython's chunk size for this pool size and task count
ChunkSizeOK(tr) == tr.mode \in {"serial", "real"} \/
  tr.CS = (LET q == tr.T \div (4 * tr.P) IN IF tr.T % (4 * tr.P) = 0 THEN q ELSE q + 1)

\* one event: returns <<new state, error-or-"">>
Step(tr, s, ev) ==
  LET w == ev.w  c == s.cur[w] IN
  IF s.stopped THEN <<s, "C20:evaluation-continued-after-the-interrupt">>
  \* a sub-cube handled by a thread that is not a worker of the pool (w = 0: the caller's own thread) during a pooled
  \* evaluation: not a behaviour of the model
  ELSE IF tr.mode = "pool" /\ w = 0 THEN <<s, "X00:event-not-allowed-by-the-pool-model">>
  ELSE IF ev.e = "take" THEN
       IF tr.mode = "serial" \/ c.phase # "idle" \/ ev.t \in s.claimed \/ (\E d \in 1..(ev.t - 1) : d \notin s.claimed)
          \/ ev.t > NChunks(tr)
       THEN <<s, "X00:event-not-allowed-by-the-pool-model">>
       ELSE <<[s EXCEPT !.claimed = @ \cup {ev.t}, !.cur[w] = [phase |-> "check", chunk |-> ev.t, pos |-> 1]], "">>
  ELSE IF ev.e = "check" THEN
       LET expected == IF tr.mode = "serial" THEN Cardinality(s.consulted) + 1
                       ELSE IF c.phase = "check" THEN ChunkTasks(tr, c.chunk)[c.pos] ELSE 0 IN
       IF ev.t \in s.consulted THEN <<s, "C20:callback-consulted-twice-for-one-sub-cube">>
       ELSE IF ev.t # expected THEN <<s, "X00:event-not-allowed-by-the-pool-model">>
       ELSE IF ev.raised # (ev.t \in SeqSet(tr.faults)) THEN <<s, "C20:callback-outcome-differs-from-the-injected-fault">>
       ELSE IF ev.raised
            THEN <<[s EXCEPT !.consulted = @ \cup {ev.t}, !.failed = Append(@, ev.t),
                             \* serial: the exception propagates at once; pooled: the task ends (an "end" event follows)
                             !.cur[w].phase = IF tr.mode = "serial" THEN "idle" ELSE "fill",
                             !.stopped = (tr.mode = "serial")], "">>
            ELSE <<[s EXCEPT !.consulted = @ \cup {ev.t}, !.cur[w].phase = "fill", !.cur[w].pos = IF tr.mode = "serial" THEN ev.t ELSE c.pos], "">>
  ELSE IF ev.e = "fill" THEN
       LET mine == IF tr.mode = "serial" THEN c.pos ELSE IF c.phase = "fill" THEN ChunkTasks(tr, c.chunk)[c.pos] ELSE 0 IN
       IF c.phase # "fill" \/ ev.t # mine THEN <<s, "C20:sub-cube-filled-without-consulting-the-callback-first">>
       ELSE <<s, "">>
  ELSE \* "end": the task returned - after its fills, or (phase "check") because it was skipped after a recorded failure
       LET mine == IF tr.mode = "serial" THEN c.pos ELSE IF c.phase \in {"fill", "check"} THEN ChunkTasks(tr, c.chunk)[c.pos] ELSE 0 IN
       IF ev.t # mine \/ c.phase \notin {"fill", "check"} THEN <<s, "X00:event-not-allowed-by-the-pool-model">>
       ELSE IF c.phase = "check" /\ s.failed = <<>> THEN <<s, "C20:sub-cube-skipped-without-an-interrupt">>
       ELSE IF tr.mode = "serial" THEN <<[s EXCEPT !.cur[w] = Idle], "">>
       ELSE IF c.pos < Len(ChunkTasks(tr, c.chunk))
            THEN <<[s EXCEPT !.cur[w].phase = "check", !.cur[w].pos = c.pos + 1], "">>
            ELSE <<[s EXCEPT !.cur[w] = Idle, !.finished = @ \cup {c.chunk}], "">>

\* judgement of what the caller sees (independent of how the work was organised)
FinalOutputs(tr) ==
  (IF tr.outcome = "hung" THEN {"C20:evaluation-never-returns-when-the-interrupt-is-not-an-Exception"} ELSE {})
  \cup (IF tr.faults = <<>> /\ tr.outcome # "returned" THEN {"C16:pooled-evaluation-did-not-return-the-arrays"} ELSE {})
  \cup (IF tr.outcome = "raised" /\ ~tr.tagok THEN {"C20:propagated-exception-is-not-the-callbacks"} ELSE {})
  \cup (IF tr.outcome = "returned" /\ ~tr.sameasserial THEN {"C16:pooled-output-differs-from-serial"} ELSE {})
  \cup (IF ~tr.secondok THEN {"C20:later-uninterrupted-evaluation-differs-from-fresh"} ELSE {})

\* judgement once all events are consumed. Clauses owned by X00 say that the run was organised differently from the
\* model (other chunking, other task structure): worth a note, not a violation of any listed property.
Final(tr, s) ==
  LET raisedExpected == s.failed # <<>> IN
  (IF tr.mode = "pool" /\ tr.outcome # "hung" /\ s.finished # 1..NChunks(tr) THEN {"X00:a-chunk-was-never-finished"} ELSE {})
  \cup (IF ~ChunkSizeOK(tr) THEN {"X00:chunking-differs-from-the-pool-model"} ELSE {})
  \cup (IF raisedExpected /\ tr.outcome \notin {"raised", "hung"} THEN {"C20:interrupt-not-propagated"} ELSE {})
  \cup (IF ~raisedExpected /\ tr.outcome = "raised" THEN {"C20:raised-without-an-interrupt"} ELSE {})
  \cup (IF tr.mode # "real" /\ ~raisedExpected /\ s.consulted # 1..tr.T THEN {"C20:callback-not-consulted-for-every-sub-cube"} ELSE {})
  \cup FinalOutputs(tr)

TInit == i \in 1..Len(Trace) /\ l = 0 /\ st = St0(Trace[i]) /\ err = ""
TNext ==
  LET tr == Trace[i] IN
  \/ /\ err = "" /\ l < Len(tr.events)
     /\ LET r == Step(tr, st, tr.events[l + 1]) IN st' = r[1] /\ err' = r[2]
     /\ l' = l + 1 /\ UNCHANGED i
     \* an event the model cannot place ends the replay; what the caller saw is judged all the same
     \* (a callback that has raised by now is a fact whatever follows: the evaluation must not return)
     /\ (err' # "" => /\ PrintT(<<"V", tr.tid, err'>>)
                      /\ \A c \in FinalOutputs(tr) \cup (IF st'.failed # <<>> /\ tr.outcome \notin {"raised", "hung"}
                                                           THEN {"C20:interrupt-not-propagated"} ELSE {}) : PrintT(<<"V", tr.tid, c>>))
  \/ /\ err = "" /\ l = Len(tr.events) /\ l' = l + 1 /\ UNCHANGED <<i, st>>
     /\ LET cs == Final(tr, st) IN
        /\ err' = IF cs = {} THEN "done" ELSE "final"
        /\ IF cs = {} THEN PrintT(<<"V", tr.tid, "ok">>) ELSE \A c \in cs : PrintT(<<"V", tr.tid, c>>)
TSpec == TInit /\ [][TNext]_tvars
=============================================================================
