SPECIFICATION TSpec
