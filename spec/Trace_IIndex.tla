---------------------------- MODULE Trace_IIndex ----------------------------
(* L3 for C01, C06, C07, C15 and the index part of C17: every recorded call    *)
(* of a public index operation on the real code is one transition             *)
(*      pre-state  --op(args)-->  post-state                                   *)
(* with the full projected state logged on both sides (receiver, operands,     *)
(* result).  The step is judged against the contract of IIndex.tla; every      *)
(* failing clause is printed as <<"V", tid, "Cnn:clause">> ("ok" if none).     *)
(* Clauses are prefixed with the property that owns them.                      *)
EXTENDS IIndex, Json, IOUtils

Trace == ndJsonDeserialize(IOEnv.TRACE_FILE)

VARIABLES i, done
tvars == <<i, done>>

If(c, name) == IF c THEN {name} ELSE {}

\* JSON records -> the records IIndex.tla works with
Rep(j) == [shape |-> j.shape, common |-> j.common,
           ents |-> [q \in DOMAIN j.ents |-> [k |-> j.ents[q].k, rows |-> j.ents[q].rows,
                                             u32 |-> j.ents[q].u32, pyint |-> j.ents[q].pyint]]]
Pairs(m) == [q \in DOMAIN m |-> <<m[q][1], m[q][2]>>]

\* ---- clauses for an object that an operation created or changed -----------------------------
\* ck: "exact" | "modal" | "any" | "exact-or-modal";   po = owner of the content clauses (C01 or C06).
\* The common value is constrained only where a property says so: exactly the caller's value for shift_common(v),
\* from_array(common=..) and column_stack(new_common=..); a most frequent value after the library-chosen
\* normalisations of C15; free ("any") for update, sliced, slices1d, reindexed, copy, column_stack without new_common.
Target(po, t, valraise, shape, D, ck, cv) ==
  LET wf == WFClauses(t) IN
  wf
  \cup If(valraise, "C07:library-validator-raised")
  \cup (IF t.shape # shape THEN {po \o ":shape"}
        ELSE If(Abs(t) # D, po \o ":content"))
  \cup (CASE ck = "exact" -> If(t.common # cv, po \o ":common-value")
          [] ck = "modal" -> If(~Modal(Abs(t), t.common), "C15:common-not-most-frequent")
          [] ck = "exact-or-modal" -> If(t.common # cv /\ ~Modal(Abs(t), t.common), po \o ":common-value")
          [] OTHER -> {})

\* operands / receiver of a non-mutating call must come out as they went in
Unchanged(owner, pres, posts) ==
  If(\E q \in DOMAIN pres : ~SameRep(Rep(pres[q]), Rep(posts[q])), owner)

\* an index handed over as an argument comes back as it was: C06 says so for operands, C17 for every argument
OperandsUnchanged(e) == Unchanged("C06:operand-changed", e.others, e.otherspost)
                        \cup Unchanged("C17:argument-changed", e.others, e.otherspost)

ModalOrAny(D) == IF DOMAIN D = {} THEN "any" ELSE "modal"

\* ---- per-operation judgement -----------------------------------------------------------------------
FromArray(e) ==
  LET a == e.args  s == a.shape
      A == FromNested(a.a, s)
      m == IF a.hasmapping THEN Pairs(a.mapping) ELSE <<>>
      D == MapDense(A, m)
      refuse == NCells(s) = 0 /\ ~a.hascommon /\ ~a.hasmapping
  IN IF refuse THEN If(~e.exc, "C01:from_array-guessed-a-common-for-no-data")
     ELSE IF e.exc THEN {"C01:raised"}
     ELSE Target("C01", Rep(e.ret), e.ret.valraise, s, D,
                 IF a.hascommon THEN "exact" ELSE IF NCells(s) = 0 THEN "any" ELSE "modal",
                 IF a.hascommon THEN Lookup(m, a.common, a.common) ELSE 0)

ToArray(e) ==
  LET pre == Rep(e.recv)  a == e.args
      m == IF a.hasmapping THEN Pairs(a.mapping) ELSE <<>>
      want == MapDense(Abs(pre), m)
  IN IF e.exc THEN {"C01:raised"}
     ELSE (IF e.ret.shape # pre.shape THEN {"C01:shape"}
           ELSE If(FromNested(e.ret.a, e.ret.shape) # want, "C01:content"))
          \cup Unchanged("C17:receiver-changed", <<e.recv>>, <<e.recvpost>>)

ShiftCommon(e) ==
  LET pre == Rep(e.recv)  D == Abs(pre) IN
  IF e.exc THEN {"C06:raised"}
  ELSE Target("C06", Rep(e.recvpost), e.recvpost.valraise, pre.shape, D,
              IF e.args.hasv THEN "exact" ELSE ModalOrAny(D), e.args.v)

AppendOp(e) ==
  LET pre == Rep(e.recv)  o == Rep(e.others[1])
      D == Concat(Abs(pre), pre.shape, Abs(o), o.shape)
  IN IF e.exc THEN {"C06:raised"}
     ELSE Target("C06", Rep(e.recvpost), e.recvpost.valraise, ConcatShape(pre.shape, o.shape), D, ModalOrAny(D), 0)
          \cup OperandsUnchanged(e)

UpdateOp(e) ==
  LET pre == Rep(e.recv)
      cells == [q \in DOMAIN e.args.cells |-> [k |-> e.args.cells[q].k, rows |-> e.args.cells[q].rows]]
  IN IF ~AssignDisjoint(cells) THEN {"out-of-contract"}
     ELSE IF e.exc THEN {"C06:raised"}
     ELSE Target("C06", Rep(e.recvpost), e.recvpost.valraise, pre.shape, Assign(Abs(pre), cells), "any", pre.common)
          \cup OperandsUnchanged(e)

Filtered(e) ==
  LET pre == Rep(e.recv)  mask == e.args.mask
      D == SelectRows(Abs(pre), pre.shape, mask)
  IN IF e.exc THEN {"C06:raised"}
     ELSE Target("C06", Rep(e.ret), e.ret.valraise, FilterShape(pre.shape, mask), D, ModalOrAny(D), 0)
          \* A[mask] is a new array even when the mask keeps every row: were the result the receiver itself, the next in-place
          \* operation on either would change both
          \cup If(e.shares, "C06:result-is-the-receiver-itself")
          \cup Unchanged("C17:receiver-changed", <<e.recv>>, <<e.recvpost>>)

SlicedOp(e) ==
  LET pre == Rep(e.recv)  os == e.args.orders IN
  IF e.exc THEN {"C06:raised"}
  ELSE Target("C06", Rep(e.ret), e.ret.valraise, SliceShape(pre.shape, os), Sliced(Abs(pre), pre.shape, os),
              "any", pre.common)
       \cup Unchanged("C17:receiver-changed", <<e.recv>>, <<e.recvpost>>)

Slices1d(e) ==
  LET pre == Rep(e.recv)  D == Abs(pre)  s == pre.shape
      items == e.ret.items
      labels == {Tail(hc) : hc \in HigherCells(s)}
  IN IF e.exc THEN {"C06:raised"}
     ELSE If(Len(items) # Cardinality(labels) \/ {items[q].coords : q \in DOMAIN items} # labels,
             "C06:slice-labels")
          \cup UNION {LET t == Rep(items[q].rep)  hc == items[q].coords IN
                      IF hc \notin labels THEN {}
                      ELSE Target("C06", t, items[q].rep.valraise, <<s[1]>>,
                                  [cell \in Cells(<<s[1]>>) |-> D[<<cell[1]>> \o hc]], "any", pre.common)
                      : q \in DOMAIN items}
          \cup Unchanged("C17:receiver-changed", <<e.recv>>, <<e.recvpost>>)

Reindexed(e) ==
  LET pre == Rep(e.recv)  a == e.args
      m == IF a.hasmapping THEN Pairs(a.mapping) ELSE DefaultMapping(pre)
  IN IF e.exc THEN {"C06:raised"}
     ELSE Target("C06", Rep(e.ret), e.ret.valraise, pre.shape, MapDense(Abs(pre), m),
                 "any", Lookup(m, pre.common, pre.common))
          \cup If(a.copy /\ e.shares, "C06:requested-copy-shares-storage")
          \cup Unchanged("C17:receiver-changed", <<e.recv>>, <<e.recvpost>>)

Collapsed(e) ==
  LET pre == Rep(e.recv)  a == e.args
      m == IF a.hasmapping THEN Pairs(a.mapping) ELSE <<>>
      D == Collapse(Abs(pre), pre.shape, a.precedence, m)
  IN IF e.exc THEN {"C06:raised"}
     ELSE Target("C06", Rep(e.ret), e.ret.valraise, <<pre.shape[1]>>, D, ModalOrAny(D), 0)
          \cup If(e.shares, "C06:result-is-the-receiver-itself")
          \cup Unchanged("C17:receiver-changed", <<e.recv>>, <<e.recvpost>>)

Copy(e) ==
  LET pre == Rep(e.recv) IN
  IF e.exc THEN {"C06:raised"}
  ELSE Target("C06", Rep(e.ret), e.ret.valraise, pre.shape, Abs(pre), "any", pre.common)
       \cup If(e.shares, "C06:requested-copy-shares-storage")
       \cup Unchanged("C17:receiver-changed", <<e.recv>>, <<e.recvpost>>)

ColumnStackOp(e) ==
  LET os == [q \in DOMAIN e.others |-> Rep(e.others[q])]
      ss == [q \in DOMAIN os |-> os[q].shape]
      Ds == [q \in DOMAIN os |-> Abs(os[q])]
      a == e.args
  IN IF e.exc THEN {"C06:raised"}
     ELSE Target("C06", Rep(e.ret), e.ret.valraise, <<ss[1][1], NCols(ss)>>, ColumnStack(Ds, ss),
                 IF a.hasnewcommon THEN "exact" ELSE "any", a.newcommon)
          \cup If(a.copy /\ e.shares, "C06:requested-copy-shares-storage")
          \cup OperandsUnchanged(e)

SetUpdate(e) ==
  LET pre == Rep(e.recv)  post == Rep(e.recvpost)
      o == [q \in DOMAIN e.args.other |-> [k |-> e.args.other[q].k, rows |-> e.args.other[q].rows, none |-> e.args.other[q].none]]
      P == EntPairs(pre)
      want == CASE e.args.which = "union" -> UnionUpd(P, OtherPairs(o))
                [] e.args.which = "inter" -> InterUpd(P, o)
                [] OTHER -> DiffUpd(P, OtherPairs(o))
      wantrep == [shape |-> pre.shape, common |-> pre.common,
                  ents |-> [q \in 1..Cardinality(want) |->
                              LET p == SetToSeq(want)[q] IN [k |-> p[1], rows |-> p[2], u32 |-> TRUE, pyint |-> TRUE]]]
  IN IF ~WF(wantrep) THEN {"out-of-contract"}
     ELSE IF e.exc THEN {"C06:raised"}
     ELSE WFClauses(post)
          \cup If(e.recvpost.valraise, "C07:library-validator-raised")
          \cup If(EntPairs(post) # want \/ post.shape # pre.shape \/ post.common # pre.common, "C06:content")
          \cup OperandsUnchanged(e)

Query(e) ==
  LET pre == Rep(e.recv)  D == Abs(pre)  s == pre.shape  a == e.args  r == e.ret
      q == a.q
      commonPairs == {<<<<pre.common>> \o Tail(hc), RowsWith(D, s, Tail(hc), pre.common)>> : hc \in HigherCells(s)}
  IN IF e.exc THEN {"C06:raised"}
     ELSE (CASE q = "get" ->
                 LET want == IF a.key[1] = pre.common THEN RowsWith(D, s, Tail(a.key), pre.common)
                             ELSE SortedSeq(RowsOf(EntPairs(pre), a.key))
                 IN If(r.none # (want = <<>>) \/ (~r.none /\ r.rows # want), "C06:wrong-rows")
             [] q = "items" ->
                 If({<<r.items[j].k, r.items[j].rows>> : j \in DOMAIN r.items} # EntPairs(pre) \cup commonPairs
                    \/ Len(r.items) # Cardinality(EntPairs(pre) \cup commonPairs), "C06:wrong-rows")
             [] q = "common_rowids" ->
                 If(r.rows # RowsWith(D, s, a.hc, pre.common), "C06:wrong-rows")
             [] q = "abscissae" -> If(SeqSet(r.values) # RangeOf(D), "C07:reports-a-value-that-occurs-nowhere")
             [] q = "sparsity" ->
                 If(IF NCells(s) = 0 THEN r.num # 0
                    ELSE r.num * NCells(s) # 100 * Count(D, pre.common) * r.den, "C07:sparsity")
             [] q = "size" -> If(r.n # NCells(s), "C06:size")
             \* ---- beyond the listed properties (owner X00: reported as a note, never as a violation) ----
             [] q = "get_noforce" ->      \* the common value is not stored: asking for it gives the default
                 LET want == IF a.key[1] = pre.common THEN <<>> ELSE SortedSeq(RowsOf(EntPairs(pre), a.key))
                 IN If(r.none # (want = <<>>) \/ (~r.none /\ r.rows # want), "X00:get-without-force")
             [] q = "items_noforce" ->
                 If({<<r.items[j].k, r.items[j].rows>> : j \in DOMAIN r.items} # EntPairs(pre), "X00:items-without-force")
             [] q = "ndim" -> If(r.n # Len(s), "X00:ndim")
             [] OTHER -> \* "cube_shape": extent inferred by ccube for this dimension
                 If(r.n # Max(RangeOf(D) \cup {pre.common}) + 1, "C07:inferred-cube-extent"))
          \cup Unchanged("C17:receiver-changed", <<e.recv>>, <<e.recvpost>>)

Eq(e) ==
  LET a == Rep(e.others[1])  b == Rep(e.others[2])  r == e.ret
      same == a.shape = b.shape /\ a.common = b.common /\ Abs(a) = Abs(b)
  IN IF ~WF(a) \/ ~WF(b) THEN {"out-of-contract"}
     ELSE If(r.eqexc, "C15:eq-raised")
          \cup If(~r.eqexc /\ r.eqab # same, "C15:eq-differs-from-canonical-equality")
          \cup If(~r.eqexc /\ r.eqab # r.eqba, "C15:eq-not-symmetric")
          \cup If(~r.eqexc /\ (~r.eqaa \/ ~r.eqbb), "C15:eq-not-reflexive")
          \cup If(r.neexc, "C15:ne-raised")
          \cup If(~r.neexc /\ ~r.eqexc /\ r.neab = r.eqab, "C15:ne-is-not-the-negation-of-eq")
          \cup If(r.eqother, "C15:equal-to-a-non-index")
          \cup Unchanged("C17:receiver-changed", e.others, e.otherspost)

\* common_common(list of indexes): a value whose total number of occurrences over all of them is maximal (X00)
CommonCommon(e) ==
  LET os == [q \in DOMAIN e.others |-> Rep(e.others[q])]
      tot(v) == FoldSet(LAMBDA q, acc : acc + Count(Abs(os[q]), v), 0, DOMAIN os)
      vals == UNION {RangeOf(Abs(os[q])) \cup {os[q].common} : q \in DOMAIN os}
  IN IF e.exc THEN {"X00:common_common-raised"}
     ELSE If(\E w \in vals : tot(w) > tot(e.ret.v), "X00:common_common-not-most-frequent")
          \cup Unchanged("C17:receiver-changed", e.others, e.otherspost)

\* set_if(key, rows): drop the key when rows is None/empty, else store the rows (X00)
SetIf(e) ==
  LET pre == Rep(e.recv)  post == Rep(e.recvpost)  a == e.args
      want == IF a.none \/ a.rows = <<>> THEN {p \in EntPairs(pre) : p[1] # a.key}
              ELSE {p \in EntPairs(pre) : p[1] # a.key} \cup {<<a.key, a.rows>>}
  IN IF e.exc THEN {"X00:set_if-raised"}
     ELSE If(EntPairs(post) # want \/ post.shape # pre.shape \/ post.common # pre.common, "X00:set_if")

Judge(e) ==
  LET cs == CASE e.op = "from_array" -> FromArray(e)
              [] e.op = "common_common" -> CommonCommon(e)
              [] e.op = "set_if" -> SetIf(e)
              [] e.op = "to_array" -> ToArray(e)
              [] e.op = "shift_common" -> ShiftCommon(e)
              [] e.op = "append" -> AppendOp(e)
              [] e.op = "update" -> UpdateOp(e)
              [] e.op = "filtered" -> Filtered(e)
              [] e.op = "sliced" -> SlicedOp(e)
              [] e.op = "slices1d" -> Slices1d(e)
              [] e.op = "reindexed" -> Reindexed(e)
              [] e.op = "collapsed" -> Collapsed(e)
              [] e.op = "copy" -> Copy(e)
              [] e.op = "column_stack" -> ColumnStackOp(e)
              [] e.op = "set_update" -> SetUpdate(e)
              [] e.op = "query" -> Query(e)
              [] e.op = "eq" -> Eq(e)
              [] OTHER -> {"bad-event"}
  IN cs \cup If(~e.memsame, "C17:argument-changed")

TInit == i \in 1..Len(Trace) /\ done = FALSE
TNext == /\ ~done /\ done' = TRUE /\ UNCHANGED i
         /\ LET cs == Judge(Trace[i]) IN
            IF cs = {} THEN PrintT(<<"V", Trace[i].tid, "ok">>)
            ELSE \A c \in cs : PrintT(<<"V", Trace[i].tid, c>>)
TSpec == TInit /\ [][TNext]_tvars
=============================================================================
