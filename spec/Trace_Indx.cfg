SPECIFICATION TSpec
