SPECIFICATION Spec
CONSTANTS
  Family <- SmallFamily
  NCells = 2
  Kind = "ccube"
  LabelRule = "append"
  LabelStore = "local"
INVARIANT InBounds
INVARIANT OneTaskPerBlock
INVARIANT LabelIsData
INVARIANT BlockHoldsItsSlices
INVARIANT Complete
INVARIANT FinalIsAFunctionOfTheInput
PROPERTY WriteOnce
CHECK_DEADLOCK FALSE
