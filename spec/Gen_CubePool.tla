---------------------------- MODULE Gen_CubePool ----------------------------
(* L2 generator: behaviours of the pool model with the acting worker recorded  *)
(* in a history variable; printed (as JSON) when the first evaluation ends.    *)
(* The harness uses each history as the baton script of its scheduler.         *)
EXTENDS CubePool, Json
VARIABLE hist
NoFaults == {{}}
GInit == Init /\ hist = <<>>
GNext == \/ \E w \in Workers : (Take(w) \/ Check(w) \/ SkipTask(w) \/ Fill(w) \/ EndTask(w)) /\ hist' = Append(hist, w)
         \/ MapDone /\ UNCHANGED hist
GSpec == GInit /\ [][GNext]_<<vars, hist>>
Emit == (outcome # "running") => PrintT(<<"BEH", ToJson(hist)>>)
=============================================================================
