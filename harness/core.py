"""Shared plumbing: TLC runner, verdict parsing, evidence writer, known-findings policy.

Exit-code policy of every check (bin/check):
  0  property held on everything explored (KNOWN-FINDING lines may be printed)
  1  at least one violation that known_findings.json does not list  (VIOLATION line)
  2  machinery failure (TLC/JVM/compiler/timeout, acceptance count mismatch, zero executions)
"""
import json
import os
import re
import shutil
import subprocess
import sys
import tempfile
import time
from pathlib import Path

VERIF = Path(__file__).resolve().parent.parent
REPO = Path(os.environ.get("VERIF_REPO", "/repo"))
OUT = Path(os.environ.get("VERIF_OUT") or VERIF)      # evidence/ and replays/ go here (mutant runs use a scratch dir)
SPEC = VERIF / "spec"
WORK = VERIF / ".work"
SEED = int(os.environ.get("VERIF_SEED", "0") or 0)
TLA_CP = "/opt/veriftools/tla/tla2tools.jar:/opt/veriftools/tla/CommunityModules-deps.jar"
NCPU = os.cpu_count() or 4


class MachineryFailure(Exception):
    pass


def workdir(tag):
    WORK.mkdir(exist_ok=True)
    return Path(tempfile.mkdtemp(prefix=tag + "-", dir=str(WORK)))


class TlcResult:
    def __init__(self, rc, out, wall):
        self.rc = rc
        self.out = out
        self.wall = wall
        m = re.findall(r"(\d+) states generated, (\d+) distinct states found", out)
        self.generated = int(m[-1][0]) if m else 0
        self.distinct = int(m[-1][1]) if m else 0
        # -simulate mode reports differently
        m2 = re.findall(r"The number of states generated: (\d+)", out)
        if m2 and not m:
            self.generated = int(m2[-1])
            self.distinct = int(m2[-1])
        self.violated = re.findall(r"Error: Invariant (\w+) is violated", out)
        self.action_violated = re.findall(r"Error: Action property (\w+) is violated", out)
        self.errors = [l for l in out.splitlines() if l.startswith("Error:")]

    def json_cases(self, tag="CASE"):
        """values printed with PrintT(<<tag, ToJson(v)>>), decoded"""
        out = []
        for m in re.finditer(r'^<<"%s", (".*")>>\s*$' % re.escape(tag), self.out, flags=re.M):
            out.append(json.loads(json.loads(m.group(1))))
        return out

    def printed(self, tag):
        """All tuples TLC printed with PrintT(<<tag, ...>>): returns list of raw inner strings."""
        return re.findall(r'<<"%s", (.*?)>>\s*$' % re.escape(tag), self.out, flags=re.M)


def run_tlc(spec, cfg, *, workers=None, env=None, simulate=None, depth=None, seed=None,
            cont=False, deadlock=False, timeout=3600, coverage=False, extra=(), heap="6g",
            dfs=False, xss=None):
    """Run TLC on SPEC/spec.tla with SPEC/cfg; returns TlcResult. Raises MachineryFailure on
    timeout or when the JVM/TLC itself fails (parse error, OOM, ...)."""
    meta = workdir("tlc")
    cmd = ["java", "-XX:+UseParallelGC", "-Xmx" + heap, "-Djava.io.tmpdir=" + str(meta)]     # (SANY unpacks modules there)
    if xss:
        cmd.append("-Xss" + xss)
    if dfs:
        cmd.append("-Dtlc2.tool.queue.IStateQueue=StateDeque")
    cmd += ["-cp", TLA_CP, "tlc2.TLC", "-metadir", str(meta), "-noGenerateSpecTE",
            "-workers", str(workers or NCPU), "-config", str(cfg)]
    if not deadlock:
        cmd.append("-deadlock")  # -deadlock DISABLES deadlock checking
    if cont:
        cmd.append("-continue")
    if coverage:
        cmd += ["-coverage", "1"]
    if simulate is not None:
        cmd += ["-simulate", simulate]
    if depth is not None:
        cmd += ["-depth", str(depth)]
    if seed is not None:
        cmd += ["-seed", str(seed)]
    cmd += list(extra) + [str(spec)]
    e = dict(os.environ)
    e.pop("JAVA_TOOL_OPTIONS", None)
    if env:
        e.update({k: str(v) for k, v in env.items()})
    t0 = time.time()
    try:
        p = subprocess.run(cmd, cwd=str(SPEC), env=e, capture_output=True, text=True, timeout=timeout)
    except subprocess.TimeoutExpired:
        shutil.rmtree(meta, ignore_errors=True)
        raise MachineryFailure("TLC timed out after %ss: %s %s" % (timeout, spec, cfg))
    finally:
        pass
    shutil.rmtree(meta, ignore_errors=True)
    out = p.stdout + p.stderr
    res = TlcResult(p.returncode, out, time.time() - t0)
    # rc 0 = ok, 12 = safety violation, 13 = liveness violation; everything else is machinery
    if p.returncode not in (0, 12, 13):
        raise MachineryFailure("TLC failed rc=%s on %s %s\n%s" % (p.returncode, spec, cfg, out[-3000:]))
    return res


# ----------------------------------------------------------------------------------------------
# known findings
# ----------------------------------------------------------------------------------------------

def load_known():
    p = VERIF / "known_findings.json"
    if not p.exists():
        return []
    return json.loads(p.read_text()).get("findings", [])


class Check:
    """Collects what one run of one property's check covered and found."""

    def __init__(self, pid, tier):
        self.pid = pid
        self.tier = tier
        self.t0 = time.time()
        self.states = 0
        self.transitions = 0
        self.traces = 0          # implementation executions validated against the spec
        self.evaluations = 0
        self.nontrivial = set()
        self.samples = []
        self.violations = []     # (signature, description, replay dict)
        self.notes = []
        self.extra = {}
        self.assumptions = []
        self.rule = ""
        self.exhaustive = False
        self.legs = {}
        for old in (OUT / "replays").glob("%s-%s-*.json" % (pid, tier)):
            old.unlink()

    # -- bookkeeping ------------------------------------------------------------------------
    def add_tlc(self, leg, res):
        self.states += res.distinct
        self.transitions += res.generated
        d = self.legs.setdefault(leg, {"distinct_states": 0, "states_generated": 0, "wall_s": 0.0, "runs": 0})
        d["distinct_states"] += res.distinct
        d["states_generated"] += res.generated
        d["wall_s"] = round(d["wall_s"] + res.wall, 2)
        d["runs"] += 1

    def sample(self, s, limit=6):
        if len(self.samples) < limit:
            self.samples.append(s)

    def violation(self, signature, description, replay):
        self.violations.append((signature, description, replay))

    def note(self, s):
        self.notes.append(s)
        print("NOTE " + s)

    # -- finishing --------------------------------------------------------------------------
    def finish(self):
        known = [k for k in load_known() if k.get("property") == self.pid and k.get("status") == "known"]
        new = []
        seen_known = {}
        for sig, desc, replay in self.violations:
            hit = None
            for k in known:
                if re.search(k["signature"], sig):
                    hit = k
                    break
            if hit is not None:
                seen_known.setdefault(hit["id"], (hit, 0))
                seen_known[hit["id"]] = (hit, seen_known[hit["id"]][1] + 1)
            else:
                new.append((sig, desc, replay))
        for kid, (k, n) in sorted(seen_known.items()):
            print("KNOWN-FINDING: property=%s %s [%s; %d occurrence(s) this run]" % (self.pid, k["what"], kid, n))
        rc = 0
        rdir = OUT / "replays"
        rdir.mkdir(parents=True, exist_ok=True)
        shown = set()
        for n, (sig, desc, replay) in enumerate(new):
            if sig in shown:
                continue
            shown.add(sig)
            if len(shown) > 20:
                break
            path = rdir / ("%s-%s-%d-%d.json" % (self.pid, self.tier, SEED, n))
            path.write_text(json.dumps({"property": self.pid, "signature": sig, "description": desc,
                                        "replay": replay}, indent=1, default=str))
            print("VIOLATION property=%s replay=%s" % (self.pid, path))
            print("  signature: %s" % sig)
            print("  %s" % desc[:600])
            rc = 1
        if self.traces == 0 and rc == 0:
            print("MACHINERY-FAILURE: conformance leg executed zero implementation runs")
            rc = 2
        cov = {
            "states": self.states,
            "transitions": self.transitions,
            "traces_validated_against_impl": self.traces,
            "samples": self.samples or ["(none)"],
            "evaluations": self.evaluations,
            "distinct_nontrivial": len(self.nontrivial),
            "rule": self.rule,
            "exhaustive": self.exhaustive,
            "legs": self.legs,
            "known_findings_seen": sorted(seen_known),
            "checker_cmd": "tlc (tla2tools 1.8.0) on /verif/spec, driven by /verif/bin/check",
        }
        cov.update(self.extra)
        ev = {
            "property_id": self.pid,
            "tier": self.tier,
            "seed": SEED,
            "level": "model_checking",
            "coverage": cov,
            "assumptions": self.assumptions,
            "wall_s": round(time.time() - self.t0, 2),
            "violations": len(new),
        }
        edir = OUT / "evidence"
        edir.mkdir(parents=True, exist_ok=True)
        (edir / (self.pid + ".json")).write_text(json.dumps(ev, indent=1, default=str))
        print("%s tier=%s seed=%d: states=%d transitions=%d impl_executions=%d violations=%d known=%d wall=%.1fs"
              % (self.pid, self.tier, SEED, self.states, self.transitions, self.traces, len(new),
                 len(seen_known), time.time() - self.t0))
        return rc


# ----------------------------------------------------------------------------------------------
# batch trace validation: one TLC run over an ndjson file of independent events/traces.
# The trace spec prints <<"V", id, "clause">> for every event it consumed (ok or not); the
# batch is accepted iff every id got exactly one verdict. Missing verdicts = machinery failure.
# ----------------------------------------------------------------------------------------------

def validate_batch(spec, cfg, events, *, idkey="tid", workers=None, timeout=3600, env=None, tag="V", xss=None):
    """events: list of JSON-able dicts each with a unique integer idkey. Returns
    (TlcResult, {id: verdict_string})."""
    if not events:
        raise MachineryFailure("empty batch")
    wd = workdir("trace")
    f = wd / "trace.ndjson"
    with open(f, "w") as fh:
        for e in events:
            fh.write(json.dumps(e, separators=(",", ":")) + "\n")
    e = {"TRACE_FILE": str(f)}
    if env:
        e.update(env)
    try:
        res = run_tlc(spec, cfg, workers=workers, env=e, cont=True, timeout=timeout, xss=xss)
    finally:
        if not os.environ.get("VERIF_KEEP"):
            shutil.rmtree(wd, ignore_errors=True)
    verdicts = {}
    # TLC wraps tuples longer than 80 characters over several lines: be whitespace-tolerant
    for m in re.finditer(r'<<\s*"%s",\s*(-?\d+),\s*"([^"]*)"\s*>>' % tag, res.out):
        verdicts.setdefault(int(m.group(1)), [])
        if m.group(2) not in verdicts[int(m.group(1))]:
            verdicts[int(m.group(1))].append(m.group(2))
    for i, vs in verdicts.items():
        if "ok" in vs and len(vs) > 1:
            raise MachineryFailure("event %d judged both ok and %s" % (i, vs))
    ids = [ev[idkey] for ev in events]
    missing = [i for i in ids if i not in verdicts]
    if missing:
        raise MachineryFailure("TLC produced no verdict for %d of %d events (first id %s)\n%s"
                               % (len(missing), len(ids), missing[0], res.out[-3000:]))
    return res, verdicts


def record_test_suite(tests="tests"):
    """Run the repository's own tests (guard CATII_VERIF=1, external pytest plugin harness.pytest_recorder) against the
    rebuilt kernel and return the recorded events: {"index": [...], "cube": [...], "skipped": {...}, "recorded": {...}}."""
    wd = workdir("suite")
    out = wd / "recorded.json"
    env = dict(os.environ, CATII_VERIF="1", CATII_VERIF_OUT=str(out), PYTHONHASHSEED="0",
               PYTHONPATH="%s:%s" % (VERIF, REPO / "src"))
    boot = ("import sys; sys.path.insert(0, %r); from harness import build; build.load_catii('plain'); "
            "import pytest; sys.exit(pytest.main(['-q', '-p', 'no:cacheprovider', '-p', 'harness.pytest_recorder', %r]))"
            % (str(VERIF), tests))
    try:
        p = subprocess.run([sys.executable, "-c", boot], cwd=str(REPO), env=env, capture_output=True, text=True, timeout=1800)
        if not out.exists():
            raise MachineryFailure("test-suite recording produced no events\n" + (p.stdout + p.stderr)[-1500:])
        data = json.loads(out.read_text())
    finally:
        shutil.rmtree(wd, ignore_errors=True)
    return data


def run_apalache(spec, inv, *, init="Init", next_="Next", length=0, timeout=900):
    """Apalache (symbolic, SMT): returns (ok: bool, output). Machinery failure on anything but OK / invariant violation."""
    wd = workdir("apalache")
    try:
        p = subprocess.run(["apalache-mc", "check", "--init=" + init, "--next=" + next_, "--inv=" + inv,
                            "--length=%d" % length, "--out-dir=" + str(wd), str(SPEC / spec)],
                           cwd=str(SPEC), capture_output=True, text=True, timeout=timeout)
    except subprocess.TimeoutExpired:
        raise MachineryFailure("apalache timed out on %s" % spec)
    finally:
        shutil.rmtree(wd, ignore_errors=True)
    out = p.stdout + p.stderr
    if "EXITCODE: OK" in out:
        return True, out
    if "EXITCODE: ERROR (12)" in out:
        return False, out
    raise MachineryFailure("apalache failed on %s\n%s" % (spec, out[-2000:]))
