"""pytest plugin (DESIGN 4.4): record the calls the repository's own tests make to the public index
operations and cube aggregates, as events for Trace_IIndex.tla / Trace_Cube.tla.

Enabled only when CATII_VERIF=1; loaded with `-p harness.pytest_recorder` and PYTHONPATH=/verif; no file
under /repo is touched. Every wrapper calls the original with the test's own argument objects and
re-raises whatever it raises, so test outcomes do not change. A call is recorded only when receiver,
operands and arguments are inside the operation's documented precondition (integer values, well-formed
receiver, mask length, one order per axis, ...); everything else is counted as skipped.
Events are written to $CATII_VERIF_OUT (json) at session end.
"""
import json
import os
from fractions import Fraction

ENABLED = os.environ.get("CATII_VERIF") == "1"
STATE = {"rec": None, "cube": None, "busy": False, "skipped": {}, "recorded": {}}


def _skip(why):
    STATE["skipped"][why] = STATE["skipped"].get(why, 0) + 1


def _ints(*vals):
    return all(type(v) is int or (hasattr(v, "dtype") and getattr(v, "ndim", 1) == 0 and v.dtype.kind in "iu") for v in vals)


def pytest_configure(config):
    if not ENABLED:
        return
    import numpy as np
    from harness.drivers import index as ix
    from harness.drivers import cubes as cb
    import catii.iindexes as M
    from catii.iindexes import iindex
    import catii.ccubes as CC
    import catii.xcubes as XC

    rec = ix.Recorder(iindex, M.column_stack)
    STATE["rec"] = rec
    crec = cb.CubeRecorder()
    STATE["cube"] = crec
    V = ix.V

    def ok_index(i):
        try:
            return isinstance(i, iindex) and ix.wellformed(i) and _ints(i.common, *[k[0] for k in dict.keys(i)]) \
                and all(type(s) is int for s in i.shape) and len(i.shape) in (1, 2, 3)
        except Exception:
            return False

    def wrap(name, build):
        """build(self, *a, **kw) -> None (skip) or (ev, finish(result)) ; original always runs"""
        orig = getattr(iindex, name)

        def wrapper(self, *a, **kw):
            if STATE["busy"]:
                return orig(self, *a, **kw)
            STATE["busy"] = True
            try:
                try:
                    plan = build(self, *a, **kw)
                except Exception:
                    plan = None
                    _skip(name + ":unrecordable-arguments")
                if plan is None:
                    return orig(self, *a, **kw)
                ev, finish = plan
                try:
                    res = orig(self, *a, **kw)
                except Exception as e:  # noqa
                    ev["exc"] = True
                    ev["excmsg"] = "%s: %s" % (type(e).__name__, e)
                    # a raising call inside a test is the test's business (pytest.raises); not recorded
                    rec.tid -= 1
                    _skip(name + ":raised")
                    raise
                try:
                    finish(res)
                    STATE["recorded"][name] = STATE["recorded"].get(name, 0) + 1
                except Exception:
                    _skip(name + ":projection-failed")
                return res
            finally:
                STATE["busy"] = False
        wrapper.__name__ = name
        wrapper.__doc__ = orig.__doc__
        setattr(iindex, name, wrapper)

    def b_shift(self, new_common=None):
        if not ok_index(self) or len(self.shape) > 2 or (new_common is not None and not _ints(new_common)):
            return _skip("shift_common:out-of-contract")
        ev = rec._ev("shift_common", recv=self, args={"hasv": new_common is not None, "v": V(new_common or 0)})
        return ev, lambda res: rec._finish(ev, recv=self, desc=("test-suite shift_common", new_common))

    def b_append(self, other):
        if not (ok_index(self) and ok_index(other)) or len(self.shape) > 2 or tuple(self.shape[1:]) != tuple(other.shape[1:]):
            return _skip("append:out-of-contract")
        ev = rec._ev("append", recv=self, others=[other])
        return ev, lambda res: rec._finish(ev, recv=self, others=[other], desc=("test-suite append",))

    def b_update(self, entries):
        if not ok_index(self) or len(self.shape) > 2 or not isinstance(entries, dict):
            return _skip("update:out-of-contract")
        cells = []
        seen = {}
        for k, r in entries.items():
            rows = [int(x) for x in np.asarray(r).tolist()]
            if type(k) is not tuple or len(k) != len(self.shape) or not _ints(*k) or rows != sorted(set(rows)) or \
                    (rows and (rows[0] < 0 or rows[-1] >= self.shape[0])):
                return _skip("update:out-of-contract")
            s = seen.setdefault(k[1:], set())
            if s & set(rows):
                return _skip("update:cell-listed-twice")
            s |= set(rows)
            cells.append({"k": [V(k[0])] + list(k[1:]), "rows": rows})
        ev = rec._ev("update", recv=self, args={"cells": cells})
        return ev, lambda res: rec._finish(ev, recv=self, desc=("test-suite update", repr(entries)[:200]))

    def b_filtered(self, mask, new_length):
        m = np.asarray(mask)
        if not ok_index(self) or len(self.shape) > 2 or m.dtype != bool or m.shape != (self.shape[0],) or int(m.sum()) != new_length:
            return _skip("filtered:out-of-contract")
        ev = rec._ev("filtered", recv=self, args={"mask": [bool(b) for b in m]})
        return ev, lambda res: rec._finish(ev, recv=self, ret=ix.project(res), desc=("test-suite filtered", m.tolist()))

    def b_sliced(self, *orders):
        if not ok_index(self) or len(orders) != len(self.shape) - 1 or not orders:
            return _skip("sliced:out-of-contract")
        js = []
        for o, ext in zip(orders, self.shape[1:]):
            if o is None:
                js.append({"t": "none", "i": 0, "l": []})
            elif type(o) is int and 0 <= o < ext:
                js.append({"t": "int", "i": o, "l": []})
            elif isinstance(o, (list, tuple)) and all(type(x) is int and 0 <= x < ext for x in o) and len(set(o)) == len(o):
                js.append({"t": "list", "i": 0, "l": list(o)})
            else:
                return _skip("sliced:out-of-contract")
        ev = rec._ev("sliced", recv=self, args={"orders": js})
        return ev, lambda res: rec._finish(ev, recv=self, ret=ix.project(res), desc=("test-suite sliced", repr(orders)))

    def b_reindexed(self, mapping=None, copy=True, shift=True, assume_unique=False):
        if not ok_index(self) or (mapping is not None and not (isinstance(mapping, dict) and _ints(*mapping.keys()) and _ints(*mapping.values()))):
            return _skip("reindexed:out-of-contract")
        if assume_unique:
            present = set(ix.dense_of(self).ravel().tolist()) | {self.common}
            img = [(mapping or {}).get(v, v) for v in present]
            if len(set(img)) != len(img):
                return _skip("reindexed:assume_unique-precondition")
        ev = rec._ev("reindexed", recv=self, args={"hasmapping": mapping is not None,
                                                   "mapping": [[V(k), V(v)] for k, v in (mapping or {}).items()],
                                                   "copy": bool(copy), "shift": bool(shift), "assume_unique": bool(assume_unique)})

        def fin(res):
            ev["shares"] = ix.shares(res, [self])
            rec._finish(ev, recv=self, ret=ix.project(res), desc=("test-suite reindexed", repr(mapping)[:200]))
        return ev, fin

    def b_collapsed(self, precedence, mapping=None):
        if not ok_index(self) or len(self.shape) != 2 or not precedence or len(set(precedence)) != len(precedence) or not _ints(*precedence) \
                or (mapping is not None and not (isinstance(mapping, dict) and _ints(*mapping.keys()) and _ints(*mapping.values()))):
            return _skip("collapsed:out-of-contract")
        ev = rec._ev("collapsed", recv=self, args={"precedence": [V(p) for p in precedence], "hasmapping": mapping is not None,
                                                   "mapping": [[V(k), V(v)] for k, v in (mapping or {}).items()]})
        return ev, lambda res: rec._finish(ev, recv=self, ret=ix.project(res), desc=("test-suite collapsed", list(precedence)))

    def b_copy(self):
        if not ok_index(self):
            return _skip("copy:out-of-contract")
        ev = rec._ev("copy", recv=self)

        def fin(res):
            ev["shares"] = ix.shares(res, [self])
            rec._finish(ev, recv=self, ret=ix.project(res), desc=("test-suite copy",))
        return ev, fin

    def b_to_array(self, mapping=None, dtype=None):
        if not ok_index(self) or len(self.shape) > 2:
            return _skip("to_array:out-of-contract")
        if mapping:
            present = set(ix.dense_of(self).ravel().tolist()) | {self.common}
            if not (isinstance(mapping, dict) and _ints(*mapping.values()) and present <= set(mapping)):
                return _skip("to_array:mapping-not-total")
        try:
            dname = "" if dtype is None else np.dtype(dtype).name
        except Exception:
            return _skip("to_array:dtype")
        if dname and np.dtype(dtype).kind not in "iu":
            return _skip("to_array:non-integer-dtype")
        ev = rec._ev("to_array", recv=self, args={"hasmapping": bool(mapping), "mapping": [[V(k), V(v)] for k, v in (mapping or {}).items()],
                                                  "dtype": dname})

        def fin(res):
            if res.dtype.kind not in "iu":
                raise ValueError("non-integer output")
            rec._finish(ev, recv=self, ret={"a": ix.nested(res), "shape": list(res.shape), "dtype": res.dtype.name},
                        desc=("test-suite to_array", repr(mapping)[:100], dname))
        return ev, fin

    for nm, b in (("shift_common", b_shift), ("append", b_append), ("update", b_update), ("filtered", b_filtered),
                  ("sliced", b_sliced), ("reindexed", b_reindexed), ("collapsed", b_collapsed), ("copy", b_copy),
                  ("to_array", b_to_array)):
        wrap(nm, b)

    # ---- cubes: the four shared aggregates of both cube types -------------------------------------------
    def fact_of(arr, n):
        if isinstance(arr, tuple):
            vals, valid = np.asarray(arr[0]), np.asarray(arr[1]).astype(bool)
            form = "tuple"
        else:
            vals = np.asarray(arr)
            if vals.dtype.kind != "f":
                return None
            valid = ~np.isnan(vals)
            form = "nan"
        if vals.ndim not in (1, 2) or vals.shape[0] != n or valid.shape != vals.shape or vals.dtype.kind not in "fiu":
            return None
        oned = vals.ndim == 1
        v2 = vals.reshape(n, -1).astype(float)
        out = []
        for r in range(n):
            row = []
            for k in range(v2.shape[1]):
                x = v2[r, k]
                if not valid.reshape(n, -1)[r, k] or x != x:
                    row.append(Fraction(0))
                else:
                    f = Fraction(x).limit_denominator(64)
                    if float(f) != x or abs(f) > 10 ** 6:
                        return None
                    row.append(f)
            out.append(row)
        return {"vals": out, "valid": valid.reshape(n, -1).tolist(), "form": form, "dtype": "float", "oned": oned, "K": v2.shape[1]}

    def weights_of(w, n):
        if w is None:
            return False, None
        if isinstance(w, tuple):
            vals, valid = np.asarray(w[0], dtype=float), np.asarray(w[1]).astype(bool)
        else:
            vals = np.asarray(w, dtype=float)
            valid = ~np.isnan(vals)
        if vals.ndim == 0:
            f = Fraction(float(vals)).limit_denominator(64)
            if not valid or float(f) != float(vals) or f < 0:
                return True, None
            return False, {"kind": "scalar", "w": f}
        if vals.shape != (n,):
            return True, None
        ws = []
        for x, ok in zip(vals.tolist(), valid.tolist()):
            f = Fraction(x).limit_denominator(64) if ok and x == x else Fraction(0)
            if ok and (float(f) != x or f < 0):
                return True, None
            ws.append(f)
        return False, {"kind": "array", "w": ws, "valid": valid.tolist(), "form": "nan"}

    def fmt_of(rma):
        if isinstance(rma, tuple):
            if len(rma) == 2 and rma[1] is False and isinstance(rma[0], (int, float)) and rma[0] == rma[0]:
                return ("tuple", rma[0])
            return None
        if isinstance(rma, float) and rma != rma:
            return ("nan",)
        if rma == 0 and not isinstance(rma, bool):
            return ("plain", 0)
        return None

    def wrap_cube(cls, kind, name):
        orig = getattr(cls, name)

        def wrapper(self, *a, **kw):
            if STATE["busy"]:
                return orig(self, *a, **kw)
            STATE["busy"] = True
            try:
                case = None
                try:
                    case = plan_cube(self, kind, name, a, kw)
                except Exception:
                    _skip(kind + "." + name + ":unrecordable")
                try:
                    res = orig(self, *a, **kw)
                except Exception:
                    _skip(kind + "." + name + ":raised")
                    raise
                if case is not None:
                    try:
                        crec.record("C03", case, res, None, tuple(int(x) for x in self.interacting_shape), kind,
                                    note="recorded from the repository's test-suite", total=cb.total_of(case))
                        STATE["recorded"][kind + "." + name] = STATE["recorded"].get(kind + "." + name, 0) + 1
                    except Exception:
                        _skip(kind + "." + name + ":projection-failed")
                return res
            finally:
                STATE["busy"] = False
        setattr(cls, name, wrapper)

    def plan_cube(self, kind, name, a, kw):
        names = {"count": ["weights", "N", "ignore_missing", "return_missing_as"]}.get(
            name, ["arr", "weights", "ignore_missing", "return_missing_as"])
        args = dict(zip(names, a))
        args.update(kw)
        if kind == "ccube":
            if not all(ok_index(d) and d.common >= 0 and all(k[0] >= 0 for k in dict.keys(d)) for d in self.dims):
                return _skip("ccube:dims-out-of-contract")
            dims = [np.asarray(ix.dense_of(d), dtype=np.int64) for d in self.dims]
        else:
            dims = [np.asarray(d) for d in self.dims]
            if not all(d.dtype.kind in "iu" for d in dims):
                return _skip("xcube:non-integer-dims")
            dims = [d.astype(np.int64) for d in dims]
        if dims and any(d.shape[0] != dims[0].shape[0] for d in dims):
            return _skip("cube:ragged")
        n = dims[0].shape[0] if dims else None
        fact = None
        if name != "count":
            arr = args.get("arr")
            nn = n if n is not None else len(np.asarray(arr[0] if isinstance(arr, tuple) else arr))
            fact = fact_of(arr, nn)
            if fact is None:
                return _skip("cube:fact-not-representable")
            n = nn
        bad, w = weights_of(args.get("weights"), n if n is not None else (args.get("N") or 0))
        if bad:
            return _skip("cube:weights-not-representable")
        fmt = fmt_of(args.get("return_missing_as", float("nan")))
        if fmt is None:
            return _skip("cube:report-format")
        ignore = bool(args.get("ignore_missing", False))
        if name == "valid_count" and fmt[0] == "plain" and not ignore:
            return _skip("cube:documented-shortcut")
        ish = tuple(int(x) for x in self.interacting_shape)
        if any(int(d.max()) >= e for d, e in zip(dims, ish) if d.size):
            return _skip("cube:data-outside-shape")
        if n is None and not dims:
            if args.get("N") is None:
                return _skip("cube:zero-dims-without-N")
        case = cb.Case(dims, ish, fact, w, ignore, fmt, name, None, args.get("N"))
        if int(np.prod(ish or (1,))) * max(1, case.n) > 200000:
            return _skip("cube:too-large")
        return case

    for nm in ("count", "valid_count", "sum", "mean"):
        wrap_cube(CC.ccube, "ccube", nm)
        wrap_cube(XC.xcube, "xcube", nm)


def pytest_sessionfinish(session, exitstatus):
    if not ENABLED or STATE["rec"] is None:
        return
    from harness.drivers import index as ix
    out = os.environ.get("CATII_VERIF_OUT")
    if not out:
        return
    rec, crec = STATE["rec"], STATE["cube"]
    idx_events = []
    for ev in rec.events:
        try:
            s = ix.serialise(ev)
        except Exception:
            s = None
        if s is not None:
            idx_events.append({"event": s, "meta": repr(rec.meta.get(ev["tid"]))[:300]})
    cube_events = [{"event": e, "meta": crec.meta[e["tid"]], "floats": {str(k[1]): v for k, v in crec.floats.items() if k[0] == e["tid"]}}
                   for e in crec.events]
    with open(out, "w") as f:
        json.dump({"index": idx_events, "cube": cube_events, "skipped": STATE["skipped"], "recorded": STATE["recorded"]}, f, default=str)
