"""Deterministic thread scheduler for the cube worker pool (C16, C20).

SchedPool stands in for multiprocessing.pool.ThreadPool (xcube.pool_class attribute; for ccube the
module attribute multiprocessing.pool.ThreadPool is patched for the duration of a call).  Every
worker is a real thread, but exactly one holds the baton at any time:

  * opcode mode   - a sys.monitoring INSTRUCTION hook on every code object of the catii modules: before
                    every bytecode of catii code the scheduler may (seeded coin) pass the baton on;
  * bounded mode  - the same hook, but the baton moves exactly at a given small set of instruction steps
                    (preemption bounding: one or two forced context switches placed systematically over the run);
  * scripted mode - the baton is passed only at task boundaries (take / check / fill), following a
                    list of worker ids taken from a TLC behaviour of CubePool.tla.

Chunking and exception semantics copy CPython 3.12's Pool.map: chunks of ceil(n / (4 * P))
consecutive tasks (an explicit chunksize of 0 submits nothing), a task raising an Exception aborts the rest of
its chunk and map re-raises the first recorded failure after all chunks have finished; a StopIteration ends
its chunk silently (mapstar is list(map(...))); a task raising any other BaseException kills its worker
and map() would never return (PoolHang). map_async / starmap / imap / imap_unordered / apply are routed
through the same chunk scheduler; a finite timeout given to AsyncResult.wait/get may expire before the work
is done (a worker can be arbitrarily slow), decided by the seeded coin timeout_prob.

Every boundary is logged with a scheduler-global sequence number (the scheduler serialises
everything, so the order is exact): ("take", w, chunk), ("check", w, task, raised), ("fill", w, task),
("end", w, task).
"""
import os
import random
import sys
import threading


class PoolHang(Exception):
    """the real pool would never return: a task raised a BaseException that is not an Exception in a worker"""


class Scheduler:
    def __init__(self, seed=0, switch_prob=0.05, script=None, force_at=None):
        self.rnd = random.Random(seed)
        self.p = switch_prob
        self.script = list(script) if script is not None else None
        self.cond = threading.Condition()
        self.current = None
        self.alive = set()
        self.steps = 0
        self.switches = 0
        self.log = []
        self.task_of = {}          # worker -> task index currently running
        self.pools = 0
        self.force_at = set(force_at) if force_at is not None else None   # bounded preemption: switch exactly at these steps
        self.worker_of = {}      # thread ident -> worker id

    # ---- baton ------------------------------------------------------------------------------------
    def _pick(self, me=None, force_other=False):
        cands = sorted(self.alive - ({me} if force_other and len(self.alive) > 1 else set()))
        if self.script:
            while self.script:
                w = self.script.pop(0)
                if w in self.alive:
                    return w
        return self.rnd.choice(cands) if cands else None

    def _handover(self, me, to):
        if to is None or to == me:
            return
        self.switches += 1
        self.current = to
        self.cond.notify_all()
        while self.current != me:
            self.cond.wait()

    def opcode(self, me):
        self.steps += 1
        if self.force_at is not None:
            if self.steps in self.force_at:
                with self.cond:
                    self._handover(me, self._pick(me, force_other=True))
            return
        if self.script is None and self.rnd.random() < self.p:
            with self.cond:
                self._handover(me, self._pick(me, force_other=True))

    def boundary(self, me, *event):
        """a task-level event of worker `me`; in scripted mode this is where the baton may move"""
        with self.cond:
            self.log.append(tuple(event))          # logged at the linearisation point, then the baton may move
            if self.script is not None:
                self._handover(me, self._pick(me))

    def enter(self, me):
        with self.cond:
            while self.current != me:
                self.cond.wait()

    def leave(self, me):
        with self.cond:
            self.alive.discard(me)
            nxt = self._pick()
            self.current = nxt
            self.cond.notify_all()

    # ---- per-instruction hook (sys.monitoring, PEP 669; sys.settrace opcode events are not
    #      delivered by CPython 3.12.1) -----------------------------------------------------------
    TOOL = 4

    def install(self, modules):
        """enable INSTRUCTION events on every code object defined in the given modules"""
        mon = sys.monitoring
        self._codes = []
        seen = set()

        def walk(code):
            if id(code) in seen:
                return
            seen.add(id(code))
            self._codes.append(code)
            for c in code.co_consts:
                if hasattr(c, "co_code"):
                    walk(c)

        import types
        for m in modules:
            for obj in vars(m).values():
                fns = []
                if isinstance(obj, types.FunctionType):
                    fns.append(obj)
                elif isinstance(obj, type):
                    for v in vars(obj).values():
                        f = getattr(v, "__func__", v)
                        if isinstance(f, types.FunctionType):
                            fns.append(f)
                        elif isinstance(v, property) and v.fget is not None:
                            fns.append(v.fget)
                for f in fns:
                    if f.__module__ == m.__name__:
                        walk(f.__code__)
        if mon.get_tool(self.TOOL) is not None:
            mon.free_tool_id(self.TOOL)
        mon.use_tool_id(self.TOOL, "verif-sched")
        mon.register_callback(self.TOOL, mon.events.INSTRUCTION, self._on_instruction)
        for c in self._codes:
            mon.set_local_events(self.TOOL, c, mon.events.INSTRUCTION)

    def uninstall(self):
        mon = sys.monitoring
        for c in getattr(self, "_codes", []):
            mon.set_local_events(self.TOOL, c, 0)
        mon.register_callback(self.TOOL, mon.events.INSTRUCTION, None)
        if mon.get_tool(self.TOOL) is not None:
            mon.free_tool_id(self.TOOL)
        self._codes = []

    def _on_instruction(self, code, offset):
        me = self.worker_of.get(threading.get_ident())
        if me is not None:
            self.opcode(me)


def make_pool_class(sched):
    import multiprocessing

    class _Async:
        """AsyncResult / MapResult: the work is carried out (under the scheduler) when the caller first waits for it.
        A finite timeout may expire first - a worker can be arbitrarily slow - with probability sched.timeout_prob:
        the caller then continues while only part of the tasks have run."""

        def __init__(self, job, single=False):
            self._job, self._single = job, single

        def ready(self):
            return self._job.done

        def successful(self):
            if not self._job.done:
                raise ValueError("not ready")
            return not self._job.failures

        def wait(self, timeout=None):
            if self._job.done:
                return
            if timeout is not None and sched.rnd.random() < getattr(sched, "timeout_prob", 0.5):
                sched.log.append(("timeout", 0, 0))
                self._job.run(budget=sched.rnd.randrange(0, max(1, len(self._job.tasks))))
                return
            self._job.run()

        def get(self, timeout=None):
            self.wait(timeout)
            if not self._job.done:
                raise multiprocessing.TimeoutError
            if self._job.hung:
                raise PoolHang(self._job.hung[0])
            if self._job.failures:
                raise self._job.failures[0]
            out = self._job.values()
            return out[0] if self._single else out

    class _Job:
        """one map-like call: tasks cut into chunks, run by P scheduled worker threads"""

        def __init__(self, n, fn, tasks, chunksize, star=False):
            self.n, self.fn, self.tasks, self.star = n, fn, tasks, star
            if chunksize is None:
                chunksize, extra = divmod(len(tasks), n * 4)
                if extra:
                    chunksize += 1
            self.chunksize = chunksize
            # CPython: Pool._get_tasks slices the iterable `chunksize` items at a time and stops at the first empty
            # slice - with chunksize 0 no task is ever submitted and map() returns at once
            self.queue = [] if chunksize < 1 else [(c, list(range(i, min(i + chunksize, len(tasks))))) for c, i in
                                                   enumerate(range(0, len(tasks), chunksize), 1)]
            self.results = {}
            self.order = []
            self.failures, self.hung = [], []
            self.done = not self.queue
            self.started = 0
            sched.log.append(("map", n, len(tasks), chunksize))

        def values(self):
            if self.chunksize < 1:
                return [None] * len(self.tasks)          # CPython: the preallocated result list, never filled
            out = []
            for i in range(len(self.tasks)):
                if i in self.results:
                    out.append(self.results[i])
            return out

        def run(self, budget=None):
            job = self

            def worker(w):
                sched.enter(w)
                if sched.script is None:
                    sched.worker_of[threading.get_ident()] = w
                try:
                    while job.queue and (budget is None or job.started < budget):
                        c, idxs = job.queue.pop(0)
                        sched.boundary(w, "take", w, c)
                        try:
                            while idxs:
                                if budget is not None and job.started >= budget:
                                    job.queue.insert(0, (c, idxs))      # still pending when the caller stopped waiting
                                    break
                                i = idxs.pop(0)
                                job.started += 1
                                sched.task_of[w] = i + 1
                                job.results[i] = job.fn(*job.tasks[i]) if job.star else job.fn(job.tasks[i])
                                job.order.append(i)
                                sched.boundary(w, "end", w, i + 1)
                        except StopIteration:
                            pass                         # CPython: mapstar is list(map(fn, chunk)) - the chunk just ends
                        except Exception as e:  # noqa
                            job.failures.append(e)       # CPython: the rest of the chunk is abandoned
                            job.failed_at = getattr(job, "failed_at", {})
                            job.failed_at[i] = e
                        except BaseException as e:  # noqa
                            job.hung.append(e)           # CPython: the worker thread dies, map() never returns
                            break
                finally:
                    sched.worker_of.pop(threading.get_ident(), None)
                    sched.task_of.pop(w, None)
                    sched.leave(w)

            threads = [threading.Thread(target=worker, args=(w,), daemon=True) for w in range(1, self.n + 1)]
            with sched.cond:
                sched.alive = set(range(1, self.n + 1))
                sched.current = sched._pick()
            for t in threads:
                t.start()
            for t in threads:
                t.join(120)
                if t.is_alive():
                    raise RuntimeError("scheduler deadlock: worker did not finish")
            self.done = not self.queue

    class SchedPool:
        """the subset of multiprocessing.pool.Pool a caller can reasonably use: map, map_async, starmap, starmap_async,
        imap, imap_unordered, apply, apply_async, close/terminate/join and the context-manager protocol"""

        def __init__(self, processes=None, *a, **kw):
            self.n = processes or os.cpu_count() or 1
            sched.pools += 1

        def close(self):
            pass

        def terminate(self):
            pass

        def join(self):
            pass

        def __enter__(self):
            return self

        def __exit__(self, *exc):
            self.terminate()

        def map_async(self, fn, iterable, chunksize=None, callback=None, error_callback=None):
            return _Async(_Job(self.n, fn, list(iterable), chunksize))

        def map(self, fn, iterable, chunksize=None):
            return self.map_async(fn, iterable, chunksize).get()

        def starmap_async(self, fn, iterable, chunksize=None, callback=None, error_callback=None):
            return _Async(_Job(self.n, fn, [tuple(x) for x in iterable], chunksize, star=True))

        def starmap(self, fn, iterable, chunksize=None):
            return self.starmap_async(fn, iterable, chunksize).get()

        def apply_async(self, fn, args=(), kwds=None, callback=None, error_callback=None):
            kwds = kwds or {}
            return _Async(_Job(self.n, lambda _x: fn(*args, **kwds), [None], 1), single=True)

        def apply(self, fn, args=(), kwds=None):
            return self.apply_async(fn, args, kwds).get()

        def _imap(self, fn, iterable, chunksize, ordered):
            if chunksize < 1:
                raise ValueError("Chunksize must be 1+, not {0:n}".format(chunksize))
            job = _Job(self.n, fn, list(iterable), chunksize)
            job.run()
            if job.hung:
                raise PoolHang(job.hung[0])
            failed = getattr(job, "failed_at", {})
            seq = range(len(job.tasks)) if ordered else job.order + sorted(failed)

            def gen():
                for i in seq:
                    if i in failed:
                        raise failed[i]
                    if i in job.results:
                        yield job.results[i]
            return gen()

        def imap(self, fn, iterable, chunksize=1):
            return self._imap(fn, iterable, chunksize, True)

        def imap_unordered(self, fn, iterable, chunksize=1):
            return self._imap(fn, iterable, chunksize, False)

    return SchedPool


def current_worker(sched):
    """the worker holding the baton (valid inside a task)"""
    return sched.current
