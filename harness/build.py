"""Rebuild catii's compiled kernel from the *current* working tree and load the repo code.

Three variants of /repo/src/catii/set_operations.pyx are built on demand, cached by the
content hash of the .pyx (so an edit to the source is always picked up):

  plain    the unmodified source, gcc -O2             (what every check binds to)
  checked  boundscheck(False) -> boundscheck(True)    (C09 observer: IndexError on any OOB access)
  asan     unmodified source, clang -fsanitize=address (C09 thorough observer)

load_catii(variant) pre-loads the rebuilt binary as ``catii.set_operations`` *before* catii is
imported, so iindexes/ccubes bind to it; python modules come from <repo>/src directly.
"""
import hashlib
import importlib
import importlib.machinery
import importlib.util
import os
import subprocess
import sys
import sysconfig
from pathlib import Path

VERIF = Path(__file__).resolve().parent.parent
REPO = Path(os.environ.get("VERIF_REPO", "/repo"))
BUILD = VERIF / ".build"


class MachineryFailure(Exception):
    pass


def pyx_path():
    return REPO / "src" / "catii" / "set_operations.pyx"


def _variant_source(variant):
    src = pyx_path().read_text()
    if variant == "checked":
        n = src.count("@cython.boundscheck(False)")
        if n == 0:
            raise MachineryFailure(
                "bounds-check rewrite does not apply: no '@cython.boundscheck(False)' in %s" % pyx_path()
            )
        src = src.replace("@cython.boundscheck(False)", "@cython.boundscheck(True)")
    return src


def build_kernel(variant="plain"):
    """Return the path of the compiled extension for this variant of the current .pyx."""
    import numpy
    import Cython
    from Cython.Compiler.Main import CompilationOptions, compile as cy_compile

    src = _variant_source(variant)
    key = hashlib.sha256(
        (variant + "\0" + src + "\0" + Cython.__version__ + numpy.__version__ + sys.version).encode()
    ).hexdigest()[:20]
    outdir = BUILD / ("%s-%s" % (variant, key))
    so = outdir / "set_operations.so"
    if so.exists():
        return so
    BUILD.mkdir(parents=True, exist_ok=True)
    import tempfile, shutil
    final = outdir
    outdir = Path(tempfile.mkdtemp(prefix="tmp-", dir=str(BUILD)))   # private build dir: parallel checks may build at once
    pyx = outdir / "set_operations.pyx"
    pyx.write_text(src)
    cfile = outdir / "set_operations.c"
    import contextlib, io

    with contextlib.redirect_stdout(io.StringIO()), contextlib.redirect_stderr(io.StringIO()):
        res = cy_compile(str(pyx), CompilationOptions(language_level=3, output_file=str(cfile)))
    if res.num_errors or not cfile.exists():
        raise MachineryFailure("cython failed on %s" % pyx)
    inc = ["-I" + sysconfig.get_paths()["include"], "-I" + numpy.get_include()]
    tmp = outdir / "set_operations.so"
    if variant == "asan":
        cmd = ["clang", "-shared", "-fPIC", "-O1", "-g", "-fsanitize=address", "-fno-omit-frame-pointer"]
    else:
        cmd = ["gcc", "-shared", "-fPIC", "-O2"]
    cmd += ["-w", "-DNPY_NO_DEPRECATED_API=NPY_1_7_API_VERSION"] + inc + [str(cfile), "-o", str(tmp)]
    p = subprocess.run(cmd, capture_output=True, text=True)
    if p.returncode != 0:
        raise MachineryFailure("compiler failed: %s\n%s" % (" ".join(cmd), p.stderr[-2000:]))
    try:
        os.rename(outdir, final)                 # atomic publish; loser of a race just discards its copy
    except OSError:
        shutil.rmtree(outdir, ignore_errors=True)
    return final / "set_operations.so"


def load_catii(variant="plain"):
    """Import catii from REPO/src with the rebuilt kernel of the given variant bound in."""
    if "catii" in sys.modules:
        return sys.modules["catii"]
    so = build_kernel(variant)
    srcdir = str(REPO / "src")
    if srcdir in sys.path:
        sys.path.remove(srcdir)
    sys.path.insert(0, srcdir)
    loader = importlib.machinery.ExtensionFileLoader("catii.set_operations", str(so))
    spec = importlib.util.spec_from_file_location("catii.set_operations", str(so), loader=loader)
    mod = importlib.util.module_from_spec(spec)
    sys.modules["catii.set_operations"] = mod
    try:
        loader.exec_module(mod)
    except Exception:
        del sys.modules["catii.set_operations"]
        raise
    catii = importlib.import_module("catii")
    if Path(catii.__file__).resolve().parent != (REPO / "src" / "catii").resolve():
        raise MachineryFailure("catii imported from %s, expected %s" % (catii.__file__, REPO / "src"))
    catii.set_operations = mod
    import catii.iindexes, catii.ccubes  # noqa

    if catii.iindexes.union is not mod.union or catii.ccubes.set_intersect_merge_np is not mod.set_intersect_merge_np:
        raise MachineryFailure("kernel binding failed")
    return catii


def asan_runtime():
    p = subprocess.run(["clang", "-print-file-name=libclang_rt.asan-x86_64.so"], capture_output=True, text=True)
    return p.stdout.strip()


if __name__ == "__main__":
    for v in sys.argv[1:] or ["plain", "checked"]:
        print(v, build_kernel(v))
