"""What MANIFEST.json claims; bin/mkmanifest turns this into the manifest."""

ENGINES = [
    {"name": "tlc", "path": "/verif/spec", "kind_free_text":
     "TLA+ specification (contract + algorithm layers) checked by TLC 1.8.0: L1 exhaustive small-scope model "
     "checking, L2 TLC-generated behaviours replayed into the real code, L3 traces recorded from the real "
     "code validated by Trace_*.tla; driven by /verif/bin/check",
     "serves_properties": []},
]

NOTES = ("Every check: bin/check <ID> --tier quick|thorough; honours VERIF_SEED, VERIF_TIER, VERIF_REPO. "
         "Exit 0 held, 1 VIOLATION, 2 machinery failure. See DESIGN.md.")

NOT_APPLICABLE = {}

CLAIMED = {
    "C19": {
        "text": "TLC proves Ladder (branch-by-branch mirror of fit_dtype) = Narrowest (contract) on every pair of "
                "partition points; the real fit_dtype is then executed on every in-domain pair of the same "
                "partition refined by the constants harvested from its current source, and each call is validated "
                "by TLC against Narrowest. Exhaustive over the partition the property names.",
        "design_ref": "DESIGN.md 3.2, 6 C19",
        "note": "trusts Big.tla byte arithmetic, numpy.dtype(...).name, and that the partition (powers of two +-1 "
                "plus source constants +-1) has one point in every cell on which the implementation can change its answer; every pair also as NumPy integer scalars and, where exact, as floats; coordinates in [2^63, 2^64) at the INDX call site",
        "technique": "TLA+ contract + TLC trace validation of exhaustive partition calls; TLC L1 ladder=narrowest on the partition and "
                     "Apalache (SMT) ladder=narrowest for all integers",
    },
}

CLAIMED.update({
    "C08": {
        "text": "TLC model-checks the transcribed merge loops against set algebra for every pair of subsets of a 5/7-point "
                "universe (every exhaustion order) and every list of <= 3 subsets for the multi-way union; the kernel rebuilt "
                "from the current .pyx is then run on every pair of subsets of a 6/8-point universe embedded in uint32 (0, 2^31, "
                "2^32-1 ...), every None/empty wrapper combination and random long inputs, each call validated by TLC against "
                "the contract (Trace_SetKernels).",
        "design_ref": "DESIGN.md 3.4, 6 C08",
        "note": "exhaustive only up to the stated universe sizes; rank abstraction is monotone so order-only algorithms cannot tell; "
                "trusts cython+gcc rebuild of the current source; beyond the small scope: strided / reversed / read-only operands, two views of one buffer, dense runs around every power-of-two block boundary up to 2048 (4096) and around every integer constant of the current .pyx source, and the long operands again from four threads at once; multi-way unions of 7-40 (70) operands and around every constant of the source, every operand owning an element",
        "technique": "TLA+ contract + algorithm model (TLC exhaustive), TLC trace validation of exhaustive small-scope kernel calls",
    },
    "C09": {
        "text": "TLC checks that every buffer index of the transcribed kernels is in range (invariant NoOOB/WithinCap) for all small "
                "inputs; the binary is bound by running every C08 input through a bounds-checked rebuild of the current .pyx "
                "(IndexError = oob event) and, thorough tier, an ASan build of the unmodified .pyx; Trace_SetKernels rejects any "
                "event with oob/asan set.",
        "design_ref": "DESIGN.md 1, 3.4, 6 C09",
        "note": "memory safety of the binary is observed by instrumented rebuilds (Cython boundscheck, ASan), the specification "
                "contributes the exhaustive input space and the requirement; if the decorator rewrite stops applying the check exits 2; additionally every operand is placed against an inaccessible page in child processes (a dying child is bisected down to the single case that kills one)",
        "technique": "TLC invariant on index variables of the kernel model + trace validation of bounds-checked/ASan rebuild runs",
    },
    "C10": {
        "text": "TLC proves Decode(Encode(x)) = x on the format model for all word-size combinations of a small domain; the real "
                "save/load pair is executed over the arity x coordinate-width x common-width x row-shape cross product and on "
                "generated indexes, and TLC validates each recorded (x, bytes, loaded) event: loaded data, int coordinate types, "
                "uint32 arrays, rebuilt index equal and valid.",
        "design_ref": "DESIGN.md 3.6, 6 C10",
        "note": "Big.tla byte arithmetic; real files under /verif/.work; many-entry files (entry counts around 2^8, 2^12, 2^16 and around every constant of the current indxio source) are judged on counts and sampled entries; saves issued from eight threads at once are judged like any other",
        "technique": "TLA+ format model (TLC exhaustive) + TLC trace validation of real save/load executions",
    },
    "C11": {
        "text": "The specification is an independent encoder and decoder written from the docstring: TLC checks bytes written by the "
                "real save equal Encode(x, narrowest iws, 4) and decode back to x; files generated by TLC for every admissible "
                "iws/rws (incl. sizes the saver never picks) are loaded by the real loader and compared with x; the size field is "
                "checked with exact Big arithmetic for row totals from 2^30-1 to 2^33 using seek-only array stand-ins.",
        "design_ref": "DESIGN.md 3.6, 6 C11",
        "note": "Big.tla; stand-in arrays whose tofile seeks; arity byte of an empty index is accepted as 0 or the true arity; 1-, 2- and 8-byte row-id words through the writer's dtype argument, incl. the boundary of the length word (254/255/256 row ids under one-byte words: the contract's pre-condition RwsOK negated means the writer must refuse)",
        "technique": "TLA+ independent encoder/decoder; TLC-generated files replayed into load; TLC trace validation of save bytes",
    },
    "C12": {
        "text": "TLC enumerates every cut point of every file of the model domain against the loader's acceptance logic; on the real "
                "code every file written over the C10 cross product is truncated at EVERY byte and the real load must raise; TLC "
                "additionally evaluates the acceptance logic on every prefix of the real bytes.",
        "design_ref": "DESIGN.md 3.6, 6 C12",
        "note": "relies on mmap refusing a mapping longer than the file (regular files on this filesystem); exhaustive over cut points, "
                "bounded over files; system-call-level crash states of traced saves; concurrent saves; every other cut point is loaded through a handle opened for update (r+b), the others through a read-only one",
        "technique": "TLC exhaustive crash-point model + exhaustive truncation replay on the real loader, validated by TLC",
    },
})

_IDX_NOTE = ("bounded: histories up to 9/14 steps, receivers up to 7 rows x 3 columns, value universes listed in index_chains.py; "
             "trusts the harness projection of an index (dict items, dtype flags, validate(True)), numpy.shares_memory and the "
             "monotone rank abstraction used for values beyond 31 bits; also string-valued universes, a caller's subclass, operands aliasing the receiver, four memory layouts of row-id arrays, INDX round trips inside histories, 4097-row events and events sized by the constants of the current iindexes source, ties and near-ties of the two most frequent values for every cell count up to 80")
_IDX_TECH = ("TLA+ dense-array contract (IIndex.tla) + TLC trace validation of recorded operation histories on live objects; "
             "TLC-exhaustive refinement of the entries-level mirror (IIndexAlg); TLC-generated walks and the repository's own tests replayed")
_CUBE_NOTE = ("bounded: 0-4 dimensions, 0-12 rows, extents 1-4 (+padding; 255/256/65536 sparsely), integer and quarter-valued facts, "
              "weights in {0,1/4,1/2,1,2,3}; floats are converted to small rationals and every mismatch is re-checked numerically "
              "against TLC's exact expected value with the property's tolerance; numpy indexing of result blocks is trusted; also wide extents on both sides of 2^7/2^8/2^15/2^16, one cube object evaluated repeatedly while its dimensions change in place, three call styles, signed and expansion-scale weights (the specification keeps unscaled weights and untranslated facts where the statistic is invariant), pooled evaluations under the scheduler, walks of thousands of rows sized by the constants of the current ccubes source, re-entered walks")
_CUBE_TECH = ("TLA+ per-cell aggregation contract over exact rationals (Agg.tla) + TLC trace validation of real cube evaluations; "
              "TLC-exhaustive walk/differencing model (CCubeAlg) whose whole small scope is also replayed on the real index cube")
CLAIMED.update({
    "C01": {"text": "Every from_array/to_array call of the option cross product (all arrays over {0,1,2} to 3-4 rows, common "
                    "omitted/present/absent, counts given or not, mapping none/injective/many-to-one, both construction strategies via "
                    "80-400 row sparse arrays, dtype-boundary/negative/64-bit values, zero rows) is a recorded transition judged by TLC: "
                    "result index = unique well-formed representation of the mapped array, way back equal element-wise and in shape.",
            "design_ref": "DESIGN.md 3.5, 6 C01", "note": _IDX_NOTE, "technique": _IDX_TECH},
    "C06": {"text": "Seeded histories of all public index operations run on live objects without reset; each call is one fully logged "
                    "transition (receiver, operands, result before/after) that TLC judges against the dense-array semantics of "
                    "IIndex.tla: content, shape, common value, operands unchanged, requested copies share no storage.",
            "design_ref": "DESIGN.md 3.5, 6 C06", "note": _IDX_NOTE, "technique": _IDX_TECH},
    "C07": {"text": "After every step of the C06/C01 histories TLC evaluates well-formedness clause by clause on the logged "
                    "representation (strictly increasing uint32 rows in range, coordinates in shape and of the right arity, "
                    "no row under two values, nothing under common, no empty entry) plus the library's validator verdict and the "
                    "derived queries (abscissae, sparsity, inferred cube extent).",
            "design_ref": "DESIGN.md 3.5, 6 C07", "note": _IDX_NOTE, "technique": _IDX_TECH},
    "C15": {"text": "TLC checks that every library-chosen common value is a most frequent value of the result's own dense content, and "
                    "that ==/!= between indexes reached by different histories (and canonical twins, near-twins) coincide with equality "
                    "of (shape, common, dense), are symmetric, reflexive, never raise, and are False against non-indexes.",
            "design_ref": "DESIGN.md 3.5, 6 C15", "note": _IDX_NOTE, "technique": _IDX_TECH},
    "C02": {"text": "Unweighted index-cube counts for 0-4 dimensions with 1-3 axes, every kind of common value, explicit and inferred "
                    "shapes, padded extents and 255/256/65536 extents are judged cell by cell by TLC against |rows of the cell| and the "
                    "missing-iff-zero rule, visited and reconstructed cells alike.",
            "design_ref": "DESIGN.md 3.7, 6 C02", "note": _CUBE_NOTE, "technique": _CUBE_TECH},
    "C03": {"text": "Weighted count, valid count, sum and mean of both cube types over every form of fact, weight, policy and dtype "
                    "(incl. the unsigned arrays an index converts to, explicit and inferred shapes, zero dimensions) are judged by TLC "
                    "against the direct per-cell value; both cubes are compared to the same contract, hence to each other.",
            "design_ref": "DESIGN.md 3.7, 6 C03", "note": _CUBE_NOTE, "technique": _CUBE_TECH},
    "C04": {"text": "Each sampled evaluation is issued in the NaN, (sentinel, False) and plain-0 formats on both cubes; TLC judges the "
                    "missing set of each against the stated rule (none/all/any missing, zero weight sum for means) and the values "
                    "elsewhere; the documented valid_count/plain/propagate shortcut is excluded.",
            "design_ref": "DESIGN.md 3.7, 6 C04", "note": _CUBE_NOTE, "technique": _CUBE_TECH},
    "C05": {"text": "For every sampled cube and aggregate, every dimension is re-encoded with each possible common value (and "
                    "re-normalised afterwards, and values outside the data with inferred shapes); all outputs are judged against the "
                    "same contract value, which does not mention the common value.",
            "design_ref": "DESIGN.md 3.7, 6 C05", "note": _CUBE_NOTE, "technique": _CUBE_TECH},
    "C13": {"text": "Cubes whose dimensions carry one or two extra axes (extents 1-4, several dimensions at once) are evaluated on both "
                    "cube types; the harness checks result.shape and cuts the block at every extra-axis position, and TLC judges each "
                    "block against the aggregate of the corresponding 1-D slices. The scaffold itself is a specified algorithm "
                    "(CubeAxes.tla): TLC checks, for every interleaving of the sub-cubes' deliveries, that there is one task per "
                    "block, that a block holds the sub-cube of its own slices and that no cell is written twice; recorded "
                    "scaffold_shape / shape / product() and the placement of self-naming sub-cubes by the real count() are "
                    "validated against that model (Trace_CubeAxes).",
            "design_ref": "DESIGN.md 3 (CubeAxes), 6 C13", "note": _CUBE_NOTE,
            "technique": _CUBE_TECH + "; TLA+ state machine of the scaffold (CubeAxes.tla) model-checked by TLC with a rejected witness, and trace validation of the real cubes' scaffold attributes, task lists and block placement against it"},
    "C14": {"text": "Every (coordinates, rows) pair delivered by walk/interactions on 1-4 one-axis dimensions is an element of a logged "
                    "event; TLC requires the delivered multiset to equal the set of non-empty uncommon/marginal intersections with "
                    "exact increasing rows, nothing twice, no common category, nothing empty.",
            "design_ref": "DESIGN.md 3.7, 6 C14", "note": _CUBE_NOTE, "technique": _CUBE_TECH},
    "C18": {"text": "stddev, quantile, weighted quantile, min, max, covariance and correlation of the array cube are judged by TLC against "
                    "exact rational textbook values (variance and correlation on squares, sign separately), missing rules incl. fewer "
                    "than two rows and per-column-pair missingness; undefined entries are not compared.",
            "design_ref": "DESIGN.md 3.7, 6 C18", "note": _CUBE_NOTE + "; sqrt is taken by comparing squares", "technique": _CUBE_TECH},
})

_POOL_NOTE = ("the deterministic scheduler serialises real threads and may pass the baton before any bytecode of catii code; a NumPy C "
              "call is one atomic step (GIL); the stand-in pool copies CPython 3.12 Pool.map chunking and first-recorded-failure "
              "semantics; bounded: 3-12 sub-cubes, pool sizes 1-4 (1-16 with the real ThreadPool in the thorough tier); code running with the GIL released is exercised by a real-thread leg (20000-row cubes, 1 microsecond switch interval); the callback raises one of fifteen exception classes, may be a falsy callable object and may sit on the cube's class; clauses that only describe how a run was organised are notes")
CLAIMED.update({
    "C16": {"text": "TLC explores every interleaving of the pool model (chunks, checks, fills; P<=3, T<=9) and proves the pooled regions "
                    "equal the serial ones with disjoint write sets; real ccube/xcube evaluations run under a deterministic scheduler "
                    "(seeded bytecode-level preemption, or baton scripts taken from TLC behaviours of the model), every task-level event "
                    "is replayed against the model by TLC and the outputs are compared bit for bit with the serial run, whose cells TLC "
                    "judges against the aggregation contract; thorough adds the real ThreadPool at a 1 us switch interval.",
            "design_ref": "DESIGN.md 3.8, 4.3, 6 C16", "note": _POOL_NOTE,
            "technique": "TLC exhaustive pool model + TLC-generated schedules replayed + TLC trace validation of scheduler-recorded events"},
    "C20": {"text": "TLC checks, for every fault set and schedule of the pool model, that evaluation raises iff a consulted callback "
                    "invocation raises, the callback is consulted at most once per sub-cube (exactly once when nothing raises) and a later "
                    "uninterrupted evaluation is clean; on the real cubes every single invocation index (serial) and every subset "
                    "(pooled, <= 4 sub-cubes; sampled beyond) is injected, the recorded Check/Fill/End events are replayed against the "
                    "model by TLC, and the same objects are re-evaluated and compared bit for bit with a fresh evaluation.",
            "design_ref": "DESIGN.md 3.8, 6 C20", "note": _POOL_NOTE,
            "technique": "TLC exhaustive fault/schedule model + fault injection on real cubes validated by TLC trace replay"},
    "C17": {"text": "Byte digests of every argument (arrays incl. values under a False validity, index entries, mappings, lists) are part "
                    "of every index and cube event and TLC requires them unchanged for non-mutating calls; TLC-generated sessions "
                    "(Session.tla: two cubes, three shared function objects, any order/repetition/combination) are replayed on the real "
                    "cubes and each output must be bit-identical to the aggregate alone and equal the contract value.",
            "design_ref": "DESIGN.md 3.8, 6 C17", "note": "sha256 of tobytes()/repr is the notion of 'unchanged'; sessions of 6 calls; the array cube's own statistics (stddev, quantiles, extremes, covariance, correlation) under the same digests; " + _CUBE_NOTE,
            "technique": "TLC-generated call sessions replayed on real cubes + TLC trace validation with argument digests"},
})
for e in ENGINES:
    e["serves_properties"] = sorted(CLAIMED)
