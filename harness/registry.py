"""What MANIFEST.json claims; bin/mkmanifest turns this into the manifest."""

ENGINES = [
    {"name": "tlc", "path": "/verif/spec", "kind_free_text":
     "TLA+ specification (contract + algorithm layers) checked by TLC 1.8.0: L1 exhaustive small-scope model "
     "checking, L2 TLC-generated behaviours replayed into the real code, L3 traces recorded from the real "
     "code validated by Trace_*.tla; driven by /verif/bin/check",
     "serves_properties": []},
]

NOTES = ("Every check: bin/check <ID> --tier quick|thorough; honours VERIF_SEED, VERIF_TIER, VERIF_REPO. "
         "Exit 0 held, 1 VIOLATION, 2 machinery failure. See DESIGN.md.")

NOT_APPLICABLE = {}

CLAIMED = {
    "C19": {
        "text": "TLC proves Ladder (branch-by-branch mirror of fit_dtype) = Narrowest (contract) on every pair of "
                "partition points; the real fit_dtype is then executed on every in-domain pair of the same "
                "partition refined by the constants harvested from its current source, and each call is validated "
                "by TLC against Narrowest. Exhaustive over the partition the property names.",
        "design_ref": "DESIGN.md 3.2, 6 C19",
        "note": "trusts Big.tla byte arithmetic, numpy.dtype(...).name, and that the partition (powers of two +-1 "
                "plus source constants +-1) has one point in every cell on which the implementation can change its answer",
        "technique": "TLA+ contract + TLC trace validation of exhaustive partition calls; TLC L1 ladder=narrowest",
    },
}
for e in ENGINES:
    e["serves_properties"] = sorted(CLAIMED)
