"""Driver for contingency cubes: builds random / boundary problem instances, evaluates them on the
real ccube / xcube, and turns every evaluation into events for Trace_Cube.tla (one per sub-cube)."""
import itertools
import math
import random
from fractions import Fraction

import numpy as np

from .index import canonical, dense_of, digest

NaN = float("nan")
WEIGHTS = [0, Fraction(1, 4), Fraction(1, 2), 1, 1, 2, 3]
SHARED = ["count", "valid_count", "sum", "mean"]
STATS = ["stddev", "quantile", "wquantile", "min", "max", "covariance", "corrcoef"]
PROBS = [Fraction(0), Fraction(1, 4), Fraction(1, 3), Fraction(1, 2), Fraction(9, 10), Fraction(1)]


def rat(x):
    f = Fraction(x)
    return [f.numerator, f.denominator]


class Case:
    """One problem instance: dense category arrays + fact + weights + options."""

    def __init__(self, dims, ishape, fact=None, weights=None, ignore=False, fmt=("nan",), func="count", p=None,
                 N=None):
        self.dims = dims              # list of int arrays, shape (n, *extra)
        self.ishape = ishape          # tuple of extents, or None = let the cube infer
        self.fact = fact              # None or dict(vals (n,K) Fraction-able, valid (n,K) bool, form, dtype, oned)
        self.weights = weights        # None | dict(kind='scalar', w) | dict(kind='array', w, valid, form)
        self.ignore = ignore
        self.fmt = fmt                # ("nan",) | ("tuple", sentinel) | ("plain", 0)
        self.func = func
        self.p = p
        self.N = N

    @property
    def n(self):
        if self.dims:
            return self.dims[0].shape[0]
        if self.fact is not None:
            return len(self.fact["vals"])
        if self.weights is not None and self.weights["kind"] == "array":
            return len(self.weights["w"])
        return self.N or 0

    def describe(self):
        return {"dims": [d.tolist() for d in self.dims], "ishape": self.ishape, "func": self.func,
                "fact": None if self.fact is None else {"vals": [[str(x) for x in r] for r in self.fact["vals"]],
                                                         "valid": np.asarray(self.fact["valid"]).tolist(),
                                                         "form": self.fact["form"], "dtype": self.fact["dtype"],
                                                         "oned": self.fact["oned"], "offset": self.fact.get("offset", 0)},
                "weights": None if self.weights is None else {k: (str(v) if k == "w" and self.weights["kind"] == "scalar"
                                                                  else [str(x) for x in v] if k == "w"
                                                                  else np.asarray(v).tolist() if k == "valid" else v)
                                                              for k, v in self.weights.items()},
                "ignore": self.ignore, "fmt": [x if isinstance(x, (str, int, float)) else str(x) for x in self.fmt],
                "p": None if self.p is None else str(self.p)}

    # ---- arguments for the real code -------------------------------------------------------------
    def fact_arg(self, rnd):
        """the SAME Python objects are handed to every evaluation of this instance (and of instances that share its
        arguments): a call that modified them would corrupt what later calls see, as it would for a real caller"""
        if getattr(self, "_fa", None) is None:
            self._fa = self._build_fact_arg(rnd)
        return self._fa

    def share_args_with(self, other):
        self._fa = getattr(other, "_fa", None)
        self._wa = getattr(other, "_wa", None)
        self._wa_built = getattr(other, "_wa_built", False)

    def _build_fact_arg(self, rnd):
        f = self.fact
        if f["dtype"] == "datetime":
            n, K = len(f["vals"]), f["K"]
            days = np.array([[int(x) for x in r] for r in f["vals"]], dtype="int64").reshape((n, K))
            valid = np.asarray(f["valid"], dtype=bool).reshape((n, K))
            arr = days.astype("datetime64[D]")
            if f["form"] == "nan":
                arr = arr.copy()
                arr[~valid] = np.datetime64("NaT")
                out = arr
            else:
                arr = arr.copy()
                for idx in zip(*np.where(~valid)):
                    arr[idx] = rnd.choice([np.datetime64("NaT"), np.datetime64("1999-01-01")])
                out = (arr, valid.copy())
            if f["oned"]:
                out = (out[0][:, 0].copy(), out[1][:, 0].copy()) if isinstance(out, tuple) else out[:, 0].copy()
            return out
        vals = np.array([[float(x) for x in r] for r in f["vals"]], dtype=float).reshape((len(f["vals"]), f["K"]))
        # "offset": the implementation sees every value shifted by a large constant (exactly representable together with
        # the quarter-valued data); the specification keeps the unshifted values, because spread statistics are invariant
        # under translation and TLC's integers are 32-bit
        vals = vals + float(f.get("offset", 0))
        valid = np.asarray(f["valid"], dtype=bool).reshape(vals.shape)
        if f["form"] == "nan":
            arr = vals.copy()
            arr[~valid] = NaN
            out = arr
        else:
            garbage = [999.0, -7.0, 0.0] + ([NaN] if f["dtype"] == "float" else [])
            arr = vals.copy()
            for idx in zip(*np.where(~valid)):
                arr[idx] = rnd.choice(garbage)
            if f["dtype"] == "int":
                arr = arr.astype(np.int64)
            out = (arr, valid.copy())
        if f["oned"]:
            if isinstance(out, tuple):
                out = (out[0][:, 0].copy(), out[1][:, 0].copy())
            else:
                out = out[:, 0].copy()
        return out

    def weights_arg(self, rnd):
        if not getattr(self, "_wa_built", False):
            self._wa = self._build_weights_arg(rnd)
            self._wa_built = True
        return self._wa

    def _build_weights_arg(self, rnd):
        w = self.weights
        if w is None:
            return None
        if w["kind"] == "scalar":
            return float(w["w"])
        # "scale": the implementation sees every weight multiplied by a large factor (expansion weights in the thousands);
        # the specification keeps the unscaled ones - a weighted mean and the set of missing cells do not depend on the
        # unit weights are expressed in, and TLC's integers are 32-bit. Only used with the mean.
        vals = np.array([float(x * w.get("scale", 1)) for x in w["w"]], dtype=float)
        valid = np.asarray(w["valid"], dtype=bool)
        if w["form"] == "nan":
            vals = vals.copy()
            vals[~valid] = NaN
            return vals
        vals = vals.copy()
        for i in np.where(~valid)[0]:
            vals[i] = rnd.choice([5.0, NaN, 0.0])
        return (vals, valid.copy())

    def rma(self):
        if self.fmt[0] == "nan":
            return NaN
        if self.fmt[0] == "tuple":
            return (self.fmt[1], False)
        return self.fmt[1]


def call_cube(cube, case, rnd, args_out=None):
    """invoke the aggregate named by case.func on a ccube/xcube; returns the raw result"""
    kw = {"ignore_missing": case.ignore, "return_missing_as": case.rma()}
    f = case.func
    fa = case.fact_arg(rnd) if case.fact is not None else None
    wa = case.weights_arg(rnd)
    if args_out is not None:
        args_out.extend([fa, wa, digest([fa, wa])])
    # how a caller writes the call is part of the input: everything by keyword, everything positionally in the
    # documented order, or only what differs from the documented defaults
    style = rnd.choice(["kw", "kw", "positional", "defaults"])
    # the cubes' debug switch only prints; one evaluation in twenty runs with it on (output discarded)
    if rnd.random() < 0.05 and hasattr(cube, "debug"):
        import contextlib, io
        cube.debug = True
        try:
            with contextlib.redirect_stdout(io.StringIO()):
                return _call_cube_styled(cube, case, kw, fa, wa, style)
        finally:
            cube.debug = False
    return _call_cube_styled(cube, case, kw, fa, wa, style)


def _call_cube_styled(cube, case, kw, fa, wa, style):
    f = case.func
    ig, rma = kw["ignore_missing"], kw["return_missing_as"]
    if style == "defaults":
        if ig is False:
            kw.pop("ignore_missing")
        if isinstance(rma, float) and rma != rma:
            kw.pop("return_missing_as")
    wkw = {} if (style == "defaults" and wa is None) else {"weights": wa}
    if f == "count":
        # the row count may be stated explicitly (it is required when there is nothing to infer it from)
        N = case.N if case.N is not None else (case.n if (len(case.dims) and case.n % 3 == 1) else None)
        if style == "positional":
            return cube.count(wa, N, ig, rma)
        if N is not None:
            kw["N"] = N
        return cube.count(**wkw, **kw)
    if f in ("valid_count", "sum", "mean", "stddev", "covariance", "corrcoef"):
        if style == "positional":
            return getattr(cube, f)(fa, wa, ig, rma)
        return getattr(cube, f)(fa, **wkw, **kw)
    if f in ("quantile", "wquantile"):
        if style == "positional":
            return cube.quantile(fa, float(case.p), wa, ig, rma)
        return cube.quantile(fa, float(case.p), **wkw, **kw)
    if f in ("min", "max"):
        if style == "positional":
            return getattr(cube, f)(fa, ig, rma)
        return getattr(cube, f)(fa, **kw)
    raise ValueError(f)


def extra_shape(dims):
    return tuple(e for d in dims for e in d.shape[1:])


def blocks(dims):
    """yield (j, [1-D slices]) for every combination of extra-axis positions, dimension order then axis order"""
    per_dim = [list(itertools.product(*[range(e) for e in d.shape[1:]])) for d in dims]
    for combo in itertools.product(*per_dim):
        j = tuple(e for c in combo for e in c)
        yield j, [d[(slice(None),) + c] for d, c in zip(dims, combo)]


class CubeRecorder:
    def __init__(self):
        self.events = []
        self.meta = {}
        self.floats = {}      # (tid, cell index) -> float returned by the code (numeric re-check)
        self.tid = 0
        self.group = 0

    def record(self, prop, case, result, exc, ishape, cube_kind, memsame=True, note=None, total=1.0):
        """turn one calculate() result into one event per sub-cube"""
        self.group += 1
        K = 0 if case.fact is None else case.fact["K"]
        func = case.func
        matrix = func in ("covariance", "corrcoef")
        n = case.n
        es = extra_shape(case.dims)
        oned = case.fact is not None and case.fact["oned"]
        fshape = () if (K == 0 or oned) else ((K, K) if matrix else (K,))
        if matrix and oned:
            fshape = ()
        want_shape = es + tuple(ishape) + fshape
        vals_arr = validity = None
        shapeok = True
        if exc is None:
            if case.fmt[0] == "tuple":
                try:
                    vals_arr, validity = result
                    vals_arr = np.asarray(vals_arr)
                    validity = np.asarray(validity)
                except Exception:
                    shapeok = False
            else:
                vals_arr = np.asarray(result)
            if shapeok:
                if not case.dims and not es:
                    # zero dimensions: ccube returns 0-d, xcube shape (1,) (+ fact columns): compare the single cell
                    vals_arr = vals_arr.reshape(fshape) if vals_arr.size == int(np.prod(fshape or (1,))) else vals_arr
                    if validity is not None:
                        validity = validity.reshape(fshape) if validity.size == int(np.prod(fshape or (1,))) else validity
                if tuple(vals_arr.shape) != want_shape or (validity is not None and tuple(validity.shape) != want_shape):
                    shapeok = False
        tol = 1e-9 * max(1.0, abs(total))
        for j, slices in (blocks(case.dims) if case.dims else [((), [])]):
            self.tid += 1
            ev = {"tid": self.tid, "prop": prop, "kind": "agg", "func": func, "n": n,
                  "dims": [[int(x) for x in s] for s in slices], "ishape": [int(x) for x in ishape], "K": K,
                  "vals": [] if case.fact is None else [[rat(x) for x in r] for r in case.fact["vals"]],
                  "fvalid": [] if case.fact is None else np.asarray(case.fact["valid"], dtype=bool).reshape((n, K)).tolist(),
                  "wkind": "none" if case.weights is None else case.weights["kind"],
                  "w": [], "wvalid": [], "ignore": bool(case.ignore), "fmt": case.fmt[0],
                  "null": ([0, 1] if isinstance(case.fmt[1], np.datetime64) else rat(Fraction(case.fmt[1]))) if len(case.fmt) > 1 else [0, 1],
                  "p": rat(case.p) if case.p is not None else [0, 1], "commons": [],
                  "sparse": False, "cells": [], "shapeok": bool(shapeok), "exc": exc is not None,
                  "memsame": bool(memsame)}
            if case.weights is not None:
                if case.weights["kind"] == "scalar":
                    ev["w"] = [rat(case.weights["w"])] * n
                    ev["wvalid"] = [True] * n
                else:
                    ev["w"] = [rat(x) for x in case.weights.get("w_event", case.weights["w"])]
                    ev["wvalid"] = [bool(b) for b in case.weights["valid"]]
            if exc is None and shapeok:
                self._cells(ev, case, vals_arr[j] if j else vals_arr, None if validity is None else (validity[j] if j else validity),
                            ishape, K, matrix, oned, tol)
            self.events.append(ev)
            self.meta[self.tid] = {"cube": cube_kind, "block": list(j), "case": case.describe(), "note": note,
                                   "exc": exc, "group": self.group, "memsame": memsame}

    def _cells(self, ev, case, vals, validity, ishape, K, matrix, oned, tol):
        ncells = int(np.prod(ishape)) if len(ishape) else 1
        sparse = ncells > 700
        ev["sparse"] = sparse
        func = case.func
        ks = [(0, 0)] if K == 0 else ([(k, k2) for k in range(1, K + 1) for k2 in range(1, K + 1)] if matrix
                                      else [(k, 0) for k in range(1, K + 1)])
        null = case.fmt[1] if len(case.fmt) > 1 else None

        def cell_values(c):
            out = []
            for k, k2 in ks:
                ix = tuple(c)
                if K and not oned:
                    ix = ix + ((k - 1, k2 - 1) if matrix else (k - 1,))
                v = vals[ix] if ix else vals[()]
                if isinstance(v, np.datetime64) or getattr(v, "dtype", np.dtype(float)).kind == "M":
                    nat = bool(np.isnat(v))
                    v = float("nan") if nat else float(np.asarray(v).astype("datetime64[D]").astype("int64"))
                else:
                    v = float(v)
                if case.fmt[0] == "nan":
                    miss = "y" if math.isnan(v) else "n"
                elif case.fmt[0] == "tuple":
                    miss = "n" if bool(validity[ix] if ix else validity[()]) else "y"
                else:
                    miss = "u"
                out.append((k, k2, v, miss))
            return out

        if sparse:
            # list every cell that was not reported "missing with the null value"
            coords = set()
            flat_vals = vals.reshape(tuple(ishape) + (-1,)) if vals.ndim > len(ishape) else vals.reshape(tuple(ishape) + (1,))
            if case.fmt[0] == "nan":
                interesting = ~np.isnan(flat_vals).all(axis=-1)
            elif case.fmt[0] == "tuple":
                fv = validity.reshape(tuple(ishape) + (-1,))
                interesting = fv.any(axis=-1) | (flat_vals != null).any(axis=-1)
            else:
                interesting = (flat_vals != null).any(axis=-1)
            for c in zip(*np.nonzero(interesting)):
                coords.add(tuple(int(x) for x in c))
            cells = sorted(coords)
        else:
            cells = list(itertools.product(*[range(e) for e in ishape]))
        for c in cells:
            for k, k2, v, miss in cell_values(c):
                cell = {"c": [int(x) for x in c], "k": k, "k2": k2, "miss": miss, "val": [0, 1], "near": False,
                        "nan": False, "sign": 0, "same2": True}
                if math.isnan(v) or math.isinf(v):
                    cell["nan"] = True
                else:
                    x = v * v if func in ("stddev", "corrcoef") else v
                    f = Fraction(x).limit_denominator(20000)
                    if abs(f.numerator) < 2 ** 30:
                        cell["val"] = [f.numerator, f.denominator]
                        t = tol if func not in ("stddev", "corrcoef") else tol * max(1.0, 2 * abs(v))
                        cell["near"] = abs(float(f) - x) <= t
                    cell["sign"] = (v > 0) - (v < 0)
                self.floats[(ev["tid"], len(ev["cells"]) + 1)] = v
                ev["cells"].append(cell)


# --------------------------------------------------------------------------------------------------
# random instances
# --------------------------------------------------------------------------------------------------
class Gen:
    def __init__(self, seed):
        self.rnd = random.Random(seed)

    def dims(self, nd, n, extents, extra=None):
        rnd = self.rnd
        out = []
        for d in range(nd):
            es = () if not extra else extra[d]
            e = extents[d]
            fav = rnd.randrange(e)
            skew = rnd.random()
            a = np.array([fav if rnd.random() < skew else rnd.randrange(e) for _ in range(n * int(np.prod(es or (1,))))],
                         dtype=np.int64).reshape((n,) + tuple(es))
            out.append(a)
        return out

    def fact(self, n, K=None, allow_int=True, small=False):
        rnd = self.rnd
        K = K or rnd.choice([1, 1, 1, 2, 3])
        dtype = rnd.choice(["float", "float", "int"]) if allow_int else "float"
        form = "tuple" if dtype == "int" else rnd.choice(["nan", "tuple"])
        pm = rnd.choice([0.0, 0.15, 0.4, 0.8])
        rngv = 6 if small else 20
        if dtype == "int" or rnd.random() < 0.6:
            vals = [[Fraction(rnd.randint(-rngv, rngv)) for _ in range(K)] for _ in range(n)]
        else:
            vals = [[Fraction(rnd.randint(-4 * rngv, 4 * rngv), 4) for _ in range(K)] for _ in range(n)]
        valid = [[rnd.random() >= pm for _ in range(K)] for _ in range(n)]
        oned = K == 1 and rnd.random() < 0.7
        return {"vals": vals, "valid": valid, "form": form, "dtype": dtype, "oned": oned, "K": K}

    def weights(self, n, small=False, nondyadic=False):
        rnd = self.rnd
        r = rnd.random()
        if nondyadic:
            # forced: per-row weights that binary floating point cannot hold exactly
            ws = [Fraction(1, 10), Fraction(3, 10), Fraction(1, 3), Fraction(7, 10), Fraction(1, 7), Fraction(11, 10)]
            pm = rnd.choice([0.0, 0.0, 0.2])
            return {"kind": "array", "w": [Fraction(rnd.choice(ws)) for _ in range(n)],
                    "valid": [rnd.random() >= pm for _ in range(n)], "form": rnd.choice(["nan", "tuple"])}
        if r < 0.35:
            return None
        if r < 0.5:
            return {"kind": "scalar", "w": rnd.choice([Fraction(1, 2), 1, 2, 0, Fraction(1, 4), 3])}
        ws = [1, 2, Fraction(1, 2), 0] if small else WEIGHTS
        if not small and rnd.random() < 0.25:
            # weights that are not exactly representable in binary: sums and marginal differences carry rounding residue
            ws = [Fraction(1, 10), Fraction(3, 10), Fraction(1, 3), Fraction(7, 10), 1, 0]
        pm = rnd.choice([0.0, 0.0, 0.2, 0.5])
        return {"kind": "array", "w": [Fraction(rnd.choice(ws)) for _ in range(n)],
                "valid": [rnd.random() >= pm for _ in range(n)], "form": rnd.choice(["nan", "tuple"])}

    def fmt(self):
        # (sentinels that are themselves plausible results - 1, 2 - must not be mistaken for "missing")
        return self.rnd.choice([("nan",), ("nan",), ("tuple", 0), ("tuple", -1), ("tuple", 7.5), ("tuple", 1), ("tuple", 2), ("plain", 0)])

    def shared_case(self, func=None, nd=None, maxrows=10, extra=None, pad=True):
        rnd = self.rnd
        nd = rnd.choice([0, 1, 1, 2, 2, 3]) if nd is None else nd
        n = rnd.choice([0, 1, 2, 3, 5, 8, maxrows])
        extents = [rnd.choice([1, 2, 2, 3, 4]) for _ in range(nd)]
        dims = self.dims(nd, n, extents, extra)
        ishape = tuple(e + (rnd.choice([0, 0, 1, 2]) if pad else 0) for e in extents)
        func = func or rnd.choice(SHARED)
        fact = None if func == "count" else self.fact(n)
        w = self.weights(n)
        fmt = self.fmt()
        ignore = rnd.random() < 0.5
        if func == "valid_count" and fmt[0] == "plain" and not ignore:
            ignore = True            # the documented shortcut: excluded by the property
        return Case(dims, ishape, fact, w, ignore, fmt, func)


def common_choices(rnd, dense, extent):
    vals, cnts = np.unique(dense, return_counts=True)
    ch = [int(extent), int(extent) + 3]
    if len(vals):
        ch += [int(vals[np.argmax(cnts)]), int(vals[np.argmin(cnts)]), int(rnd.choice(vals.tolist()))]
    ch += [rnd.randrange(max(1, extent))]
    return ch


def total_of(case):
    t = 1.0
    if case.fact is not None:
        t = max(t, float(sum(abs(x) for r in case.fact["vals"] for x in r)) * 3)
    return max(t, float(case.n) * 3)
