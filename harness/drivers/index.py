"""Recorder for inverted-index operations: runs public operations of the real iindex on live
objects and emits one fully-logged event per call for Trace_IIndex.tla.

Projection of an index (the abstract state the specification sees):
   {"shape": [...], "common": v, "ents": [{"k": [v, c2..], "rows": [...], "u32": bool, "pyint": bool}],
    "valraise": bool}
Values are wrapped in V so that an event whose values do not fit TLC's 32-bit integers can be
rank-abstracted (order-preserving, per event) by the serializer.
"""
import hashlib
import json

import numpy as np


class V:
    """a category *value* (as opposed to a row id, coordinate or extent)"""
    __slots__ = ("x",)

    def __init__(self, x):
        # integers, or strings (the library's non-integer category values), or None for "argument not given"
        self.x = x if x is None else (str(x) if isinstance(x, str) else int(x))

    def __repr__(self):
        return "V(%r)" % (self.x,)


NOREP = {"shape": [0], "common": V(None), "ents": [], "valraise": False}
import random as _random
ORDER_RND = _random.Random(20261003)


def _is_pyint(c):
    return type(c) is int or type(c) is str


def project(idx):
    ents = []
    for k, rows in dict.items(idx):
        rows_a = np.asarray(rows)
        ents.append({
            "k": [V(k[0])] + [int(c) for c in k[1:]],
            "rows": [int(r) for r in rows_a.tolist()] if rows_a.ndim == 1 else [-1],
            "u32": isinstance(rows, np.ndarray) and rows.dtype == np.uint32,
            "pyint": all(_is_pyint(c) for c in k),
        })
    try:
        idx.validate(True)
        valraise = False
    except Exception:
        valraise = True
    return {"shape": [int(s) for s in idx.shape], "common": V(idx.common), "ents": ents, "valraise": valraise}


def nested(a):
    """numpy array -> nested lists of V"""
    a = np.asarray(a)
    if a.ndim == 1:
        return [V(x) for x in a.tolist()]
    return [nested(r) for r in a]


def dense_of(idx):
    """harness-side abstraction function (independent of to_array): used for steering only"""
    out = np.full(idx.shape, idx.common, dtype=object)
    for k, rows in dict.items(idx):
        for r in np.asarray(rows).tolist():
            out[(r,) + tuple(k[1:])] = k[0]
    return out


def _val(v):
    return str(v) if isinstance(v, str) else int(v)


def _layout(rows):
    """the same row ids in the memory layouts a caller's arrays come in: owned and contiguous (mostly), every other
    word of a wider buffer (a column of a table), reversed storage read backwards, or read-only (a memory-mapped file)"""
    r = ORDER_RND.random()
    if r < 0.72 or not len(rows):
        return rows
    if r < 0.82:
        buf = np.full(2 * len(rows), 0xDEADBEEF, dtype=np.uint32)
        buf[::2] = rows
        return buf[::2]
    if r < 0.90:
        buf = np.full(len(rows) + 2, 0xDEADBEEF, dtype=np.uint32)
        buf[1:-1] = rows[::-1]
        return buf[1:-1][::-1]
    rows.flags.writeable = False
    return rows


def canonical(iindex, dense, common):
    """build the unique well-formed index of (dense, common) without using library constructors' logic"""
    dense = np.asarray(dense, dtype=object)
    entries = {}
    if dense.ndim == 1:
        cols = [((), dense)]
    elif dense.ndim == 2:
        cols = [((c,), dense[:, c]) for c in range(dense.shape[1])]
    else:
        cols = [((c, d), dense[:, c, d]) for c in range(dense.shape[1]) for d in range(dense.shape[2])]
    for hc, col in cols:
        for v in sorted(set(col.tolist())):
            if v == common:
                continue
            rows = [r for r, x in enumerate(col.tolist()) if x == v]
            entries[(_val(v),) + hc] = _layout(np.array(rows, dtype=np.uint32))
    # a dict has an insertion order and nothing may depend on it: half of the objects get a shuffled one
    if ORDER_RND.random() < 0.5:
        items = list(entries.items())
        ORDER_RND.shuffle(items)
        entries = dict(items)
    return iindex(entries, _val(common), tuple(int(s) for s in dense.shape))


def wellformed(idx, allow_empty=False, allow_unsorted=False):
    """steering only: is this object still inside the contract's pre-conditions? allow_empty: an entry without rows is
    tolerated (it leaves the dense array the index stands for well defined, so the history can go on being judged);
    allow_unsorted: so are row ids that are not in increasing order as long as no row occurs twice (the step that left
    them so is C07's business; what LATER operations make of the dense array they stand for is part of the history)"""
    try:
        nd = len(idx.shape)
        seen = {}
        for k, rows in dict.items(idx):
            if len(k) != nd or k[0] == idx.common or (len(rows) == 0 and not allow_empty):
                return False
            r = np.asarray(rows)
            if r.dtype != np.uint32 or r.ndim != 1:
                return False
            rl = r.tolist()
            if (any(a >= b for a, b in zip(rl, rl[1:])) and not (allow_unsorted and len(set(rl)) == len(rl))) or (rl and max(rl) >= idx.shape[0]):
                return False
            if any(not (0 <= c < s) for c, s in zip(k[1:], idx.shape[1:])):
                return False
            s = seen.setdefault(tuple(k[1:]), set())
            if s & set(rl):
                return False
            s |= set(rl)
        return True
    except Exception:
        return False


def digest(obj):
    h = hashlib.sha256()

    def feed(o):
        if isinstance(o, np.ndarray):
            h.update(str(o.dtype).encode() + str(o.shape).encode() + o.tobytes())
        elif isinstance(o, dict):
            for k in o:
                h.update(repr(k).encode())
                feed(o[k])
        elif isinstance(o, (list, tuple)):
            h.update(b"[")
            for x in o:
                feed(x)
            h.update(b"]")
        else:
            h.update(repr(o).encode())
    feed(obj)
    return h.hexdigest()


def arrays_of(idx):
    return [v for v in dict.values(idx) if isinstance(v, np.ndarray)]


def shares(result, sources):
    ra = arrays_of(result)
    for s in sources:
        for a in arrays_of(s):
            for b in ra:
                if a.size and b.size and np.shares_memory(a, b):
                    return True
    return False


class Recorder:
    """Executes operations and collects events."""

    def __init__(self, iindex_cls, column_stack_fn):
        self.iindex = iindex_cls
        self.column_stack = column_stack_fn
        self.events = []
        self.meta = {}
        self.tid = 0

    def _ev(self, op, recv=None, others=(), args=None):
        self.tid += 1
        return {"tid": self.tid, "op": op,
                "recv": project(recv) if recv is not None else NOREP, "recvpost": NOREP,
                "others": [project(o) for o in others], "otherspost": [],
                "args": args or {}, "ret": {}, "exc": False, "memsame": True, "shares": False}

    def _finish(self, ev, recv=None, others=(), ret=None, desc=None):
        if recv is not None:
            ev["recvpost"] = project(recv)
        # an operand that IS the receiver is not an "operand other than the receiver": nothing is claimed about it
        ev["otherspost"] = [ev["others"][j] if (o is recv and recv is not None) else project(o) for j, o in enumerate(others)]
        if ret is not None:
            ev["ret"] = ret
        self.events.append(ev)
        self.meta[ev["tid"]] = desc
        return ev

    def _call(self, ev, fn):
        try:
            return fn()
        except Exception as e:  # noqa
            ev["exc"] = True
            ev["excmsg"] = "%s: %s" % (type(e).__name__, str(e)[:200])
            return None

    # ---- construction / conversion -------------------------------------------------------------
    def from_array(self, a, common=None, mapping=None, counts=None):
        raw = a
        a = np.asarray(a)
        args = {"a": nested(a), "shape": list(a.shape), "hascommon": common is not None, "common": V(common),
                "hasmapping": mapping is not None,
                "mapping": [[V(k), V(v)] for k, v in (mapping or {}).items()], "hascounts": counts is not None}
        ev = self._ev("from_array", args=args)
        before = digest([a, mapping, counts])
        kw = {}
        if common is not None:
            kw["common"] = common
        if mapping is not None:
            kw["mapping"] = mapping
        if counts is not None:
            kw["counts"] = counts
        res = self._call(ev, lambda: self.iindex.from_array(raw, **kw))       # the caller's own object (array of any dtype, or lists)
        ev["memsame"] = digest([a, mapping, counts]) == before and (not isinstance(raw, np.ndarray) or digest(raw) == digest(a))
        self._finish(ev, ret=project(res) if res is not None else dict(NOREP),
                     desc=("from_array", a.tolist(), kw))
        return res

    def to_array(self, idx, mapping=None, dtype=None):
        args = {"hasmapping": mapping is not None, "mapping": [[V(k), V(v)] for k, v in (mapping or {}).items()],
                "dtype": "" if dtype is None else np.dtype(dtype).name}
        ev = self._ev("to_array", recv=idx, args=args)
        before = digest([mapping])
        kw = {}
        if mapping is not None:
            kw["mapping"] = mapping
        if dtype is not None:
            kw["dtype"] = dtype
        res = self._call(ev, lambda: idx.to_array(**kw))
        ev["memsame"] = digest([mapping]) == before
        ret = {"a": [], "shape": [0], "dtype": ""}
        if res is not None:
            ret = {"a": nested(res), "shape": list(res.shape), "dtype": res.dtype.name}
        self._finish(ev, recv=idx, ret=ret, desc=("to_array", repr(idx)[:300], kw))
        return res

    # ---- mutators ---------------------------------------------------------------------------------
    def shift_common(self, idx, v=None):
        ev = self._ev("shift_common", recv=idx, args={"hasv": v is not None, "v": V(v)})
        self._call(ev, (lambda: idx.shift_common()) if v is None else (lambda: idx.shift_common(v)))
        self._finish(ev, recv=idx, desc=("shift_common", v))

    def append(self, idx, other):
        ev = self._ev("append", recv=idx, others=[other])
        self._call(ev, lambda: idx.append(other))
        self._finish(ev, recv=idx, others=[other], desc=("append", repr(other)[:300]))

    def update(self, idx, cells, as_lists=False, as_index=None):
        """as_index: the cells are handed over as an iindex object (another index of the same shape, or idx itself)"""
        if as_index is not None:
            cells = {k: np.asarray(r).tolist() for k, r in dict.items(as_index)}
        args = {"cells": [{"k": [V(k[0])] + list(k[1:]), "rows": list(map(int, r))} for k, r in cells.items()]}
        others = [as_index] if as_index is not None else []
        ev = self._ev("update", recv=idx, others=others, args=args)
        arg = as_index if as_index is not None else {k: (list(r) if as_lists else np.array(r, dtype=np.uint32)) for k, r in cells.items()}
        before = digest(dict(arg)) if as_index is not idx or as_index is None else None
        self._call(ev, lambda: idx.update(arg))
        ev["memsame"] = before is None or digest(dict(arg)) == before
        self._finish(ev, recv=idx, others=others, desc=("update", {str(k): list(v) for k, v in cells.items()},
                                                         "cells given as an index object" + (" (the receiver itself)" if as_index is idx else "") if as_index is not None else ""))

    def set_update(self, idx, which, other, from_index=None):
        """other: list of (key, rows-or-None); from_index: an iindex operand instead of a dict"""
        args = {"which": which,
                "other": [{"k": [V(k[0])] + list(k[1:]), "rows": list(map(int, r)) if r is not None else [],
                           "none": r is None} for k, r in other]}
        others = [from_index] if from_index is not None else []
        ev = self._ev("set_update", recv=idx, others=others, args=args)
        if from_index is not None:
            arg = from_index
        else:
            arg = {k: (None if r is None else (np.array(r, dtype=np.uint32) if (len(r) % 2) else list(r)))
                   for k, r in other}
        before = digest(dict(arg) if from_index is not idx else 0)
        fn = {"union": idx.union_update, "inter": idx.intersection_update, "diff": idx.difference_update}[which]
        self._call(ev, lambda: fn(arg))
        ev["memsame"] = digest(dict(arg) if from_index is not idx else 0) == before
        self._finish(ev, recv=idx, others=others, desc=("set_update", which, [(list(k), r) for k, r in other]))

    # ---- transformed copies ------------------------------------------------------------------------
    def filtered(self, idx, mask):
        mask = np.asarray(mask, dtype=bool)
        ev = self._ev("filtered", recv=idx, args={"mask": [bool(b) for b in mask]})
        before = digest(mask)
        res = self._call(ev, lambda: idx.filtered(mask, int(mask.sum())))
        ev["memsame"] = digest(mask) == before
        ev["shares"] = res is idx          # boolean row selection yields a new array, also when every row is kept
        self._finish(ev, recv=idx, ret=project(res) if res is not None else dict(NOREP), desc=("filtered", mask.tolist()))
        return res

    def sliced(self, idx, orders):
        js = []
        for o in orders:
            if o is None:
                js.append({"t": "none", "i": 0, "l": []})
            elif isinstance(o, int):
                js.append({"t": "int", "i": o, "l": []})
            else:
                js.append({"t": "list", "i": 0, "l": list(o)})
        ev = self._ev("sliced", recv=idx, args={"orders": js})
        before = digest(list(orders))
        res = self._call(ev, lambda: idx.sliced(*orders))
        ev["memsame"] = digest(list(orders)) == before
        self._finish(ev, recv=idx, ret=project(res) if res is not None else dict(NOREP), desc=("sliced", list(orders)))
        return res

    def slices1d(self, idx):
        ev = self._ev("slices1d", recv=idx)
        res = self._call(ev, lambda: list(idx.slices1d()))
        items = []
        for coords, sub in (res or []):
            items.append({"coords": [int(c) for c in coords], "rep": project(sub)})
        self._finish(ev, recv=idx, ret={"items": items}, desc=("slices1d",))
        return res

    def reindexed(self, idx, mapping=None, copy=True, shift=True, assume_unique=False):
        args = {"hasmapping": mapping is not None, "mapping": [[V(k), V(v)] for k, v in (mapping or {}).items()],
                "copy": bool(copy), "shift": bool(shift), "assume_unique": bool(assume_unique)}
        ev = self._ev("reindexed", recv=idx, args=args)
        before = digest([mapping])
        res = self._call(ev, lambda: idx.reindexed(mapping, copy=copy, shift=shift, assume_unique=assume_unique))
        ev["memsame"] = digest([mapping]) == before
        if res is not None:
            ev["shares"] = shares(res, [idx])
        self._finish(ev, recv=idx, ret=project(res) if res is not None else dict(NOREP),
                     desc=("reindexed", mapping, copy, shift, assume_unique))
        return res

    def collapsed(self, idx, precedence, mapping=None):
        args = {"precedence": [V(p) for p in precedence], "hasmapping": mapping is not None,
                "mapping": [[V(k), V(v)] for k, v in (mapping or {}).items()]}
        ev = self._ev("collapsed", recv=idx, args=args)
        before = digest([precedence, mapping])
        kw = {} if mapping is None else {"mapping": mapping}
        res = self._call(ev, lambda: idx.collapsed(precedence, **kw))
        ev["memsame"] = digest([precedence, mapping]) == before
        ev["shares"] = res is idx
        self._finish(ev, recv=idx, ret=project(res) if res is not None else dict(NOREP),
                     desc=("collapsed", list(precedence), mapping))
        return res

    def copy(self, idx):
        ev = self._ev("copy", recv=idx)
        res = self._call(ev, lambda: idx.copy())
        if res is not None:
            ev["shares"] = shares(res, [idx])
        self._finish(ev, recv=idx, ret=project(res) if res is not None else dict(NOREP), desc=("copy",))
        return res

    def indx_roundtrip(self, idx):
        """save the index's parts to an INDX file, load them, rebuild an index: judged like copy() (same dense array, same
        common value, well-formed, receiver untouched)"""
        import io
        from catii.indxio import IndxIO
        import tempfile, os
        ev = self._ev("copy", recv=idx)

        def run():
            fd, path = tempfile.mkstemp(suffix=".indx", dir=os.environ.get("VERIF_WORK") or None)
            os.close(fd)
            try:
                with open(path, "wb") as f:
                    IndxIO.save(f, idx, idx.common, np.dtype(np.uint32))
                with open(path, "rb") as f:
                    ents, common, _ = IndxIO.load(f)
                return self.iindex({k: np.array(v, dtype=np.uint32) for k, v in ents.items()}, common, idx.shape)
            finally:
                os.unlink(path)
        res = self._call(ev, run)
        self._finish(ev, recv=idx, ret=project(res) if res is not None else dict(NOREP), desc=("INDX save + load + rebuild",))
        return res

    def column_stack_op(self, idxs, new_common=None, copy=False):
        args = {"hasnewcommon": new_common is not None, "newcommon": V(new_common), "copy": bool(copy)}
        ev = self._ev("column_stack", others=list(idxs), args=args)
        lst = list(idxs)
        res = self._call(ev, lambda: self.column_stack(lst, new_common=new_common, copy=copy))
        if res is not None:
            ev["shares"] = shares(res, idxs)
        ev["memsame"] = len(lst) == len(idxs) and all(a is b for a, b in zip(lst, idxs))
        self._finish(ev, others=list(idxs), ret=project(res) if res is not None else dict(NOREP),
                     desc=("column_stack", [repr(i)[:120] for i in idxs], new_common, copy))
        return res

    # ---- queries ----------------------------------------------------------------------------------------
    def query(self, idx, q, **kw):
        args = {"q": q, "key": [V(None)], "hc": []}
        ret = {"none": True, "rows": [], "items": [], "values": [], "num": 0, "den": 1, "n": 0}
        if q in ("get", "get_noforce"):
            key = kw["key"]
            args["key"] = [V(key[0])] + list(key[1:])
        if q == "common_rowids":
            args["hc"] = [] if kw.get("col") is None else [kw["col"]]
        ev = self._ev("query", recv=idx, args=args)

        def run():
            if q == "get":
                r = idx.get(kw["key"], None, force=True)
                if r is not None:
                    ret["none"] = False
                    ret["rows"] = [int(x) for x in np.asarray(r).tolist()]
            elif q == "items":
                if kw.get("via") == "to_dict":
                    d = idx.to_dict(force=True)
                    ret["items"] = [{"k": [V(k[0])] + list(k[1:]), "rows": list(v)} for k, v in d.items()]
                    ret["len"] = len(d)
                else:
                    ret["items"] = [{"k": [V(k[0])] + list(k[1:]), "rows": [int(x) for x in np.asarray(v).tolist()]}
                                    for k, v in idx.items(force=True)]
            elif q == "common_rowids":
                r = idx.common_rowids(kw.get("col")) if kw.get("col") is not None else idx.common_rowids()
                ret["rows"] = [int(x) for x in r.tolist()]
            elif q == "abscissae":
                ret["values"] = [V(x) for x in sorted(idx.abscissae)]
            elif q == "sparsity":
                from fractions import Fraction
                f = Fraction(idx.sparsity).limit_denominator(10 ** 4)
                ret["num"], ret["den"] = f.numerator, f.denominator
            elif q == "size":
                ret["n"] = int(idx.size)
            elif q == "ndim":
                ret["n"] = int(idx.ndim)
            elif q == "get_noforce":
                r = idx.get(kw["key"], None)
                if r is not None:
                    ret["none"] = False
                    ret["rows"] = [int(x) for x in np.asarray(r).tolist()]
            elif q == "items_noforce":
                ret["items"] = [{"k": [V(k[0])] + list(k[1:]), "rows": [int(x) for x in np.asarray(v).tolist()]}
                                for k, v in idx.items()]
            elif q == "cube_shape":
                from catii.ccubes import ccube
                ret["n"] = int(ccube([idx]).interacting_shape[0])
        self._call(ev, run)
        self._finish(ev, recv=idx, ret=ret, desc=("query", q, {k: v for k, v in kw.items()}))

    def common_common(self, idxs):
        ev = self._ev("common_common", others=list(idxs))
        res = self._call(ev, lambda: self.iindex.common_common(list(idxs)))
        self._finish(ev, others=list(idxs), ret={"v": V(res)}, desc=("common_common", len(idxs)))

    def set_if(self, idx, key, rows, copy=True):
        args = {"key": [V(key[0])] + list(key[1:]), "rows": [] if rows is None else list(map(int, rows)), "none": rows is None,
                "copy": bool(copy)}
        ev = self._ev("set_if", recv=idx, args=args)
        arg = None if rows is None else np.array(rows, dtype=np.uint32)
        self._call(ev, lambda: idx.set_if(key, arg, copy=copy))
        self._finish(ev, recv=idx, desc=("set_if", list(key), rows))

    def eq(self, a, b):
        ev = self._ev("eq", others=[a, b])
        ret = {"eqab": False, "eqba": False, "neab": False, "eqaa": True, "eqbb": True, "eqexc": False,
               "neexc": False, "eqother": False}
        try:
            ret["eqab"] = bool(a == b)
            ret["eqba"] = bool(b == a)
            ret["eqaa"] = bool(a == a)
            ret["eqbb"] = bool(b == b)
            ret["eqother"] = bool(a == 3) or bool(a == "x") or bool(a == None) or bool(a == {})  # noqa
        except Exception as e:  # noqa
            ret["eqexc"] = True
            ev["excmsg"] = "==: %s: %s" % (type(e).__name__, e)
        try:
            ret["neab"] = bool(a != b)
        except Exception as e:  # noqa
            ret["neexc"] = True
            ev["excmsg"] = "!=: %s: %s" % (type(e).__name__, e)
        self._finish(ev, others=[a, b], ret=ret, desc=("eq", repr(a)[:200], repr(b)[:200]))


# --------------------------------------------------------------------------------------------------
# serialisation with optional rank abstraction
# --------------------------------------------------------------------------------------------------
LIM = 2 ** 31 - 1


def _collect(o, acc):
    if isinstance(o, V):
        if o.x is not None:
            acc.add(o.x)
    elif isinstance(o, dict):
        for x in o.values():
            _collect(x, acc)
    elif isinstance(o, (list, tuple)):
        for x in o:
            _collect(x, acc)


def _subst(o, f):
    if isinstance(o, V):
        return 0 if o.x is None else f(o.x)
    if isinstance(o, dict):
        return {k: _subst(v, f) for k, v in o.items() if k != "excmsg"}
    if isinstance(o, (list, tuple)):
        return [_subst(x, f) for x in o]
    return o




def serialise(ev):
    """event with V-wrapped values -> plain JSON-able dict; rank-abstract if a value exceeds 31 bits"""
    vals = set()
    _collect(ev, vals)
    if all(isinstance(v, int) and -LIM <= v <= LIM for v in vals):
        return _subst(ev, lambda x: x)
    if len({isinstance(v, str) for v in vals}) > 1:
        return None   # integers and strings in one event have no order: not generated by the drivers
    if (ev["op"] == "reindexed" and not ev["args"]["hasmapping"]) or \
            (ev["op"] == "query" and ev["args"]["q"] in ("cube_shape",)):
        return None  # value arithmetic (k-1, max+1): cannot be rank-abstracted; drivers do not generate these
    table = {v: i for i, v in enumerate(sorted(vals))}
    return _subst(ev, lambda x: table[x])


# --------------------------------------------------------------------------------------------------
# re-execution of a recorded event (bin/check <ID> --replay): rebuild the objects from the recorded pre-state,
# run the same call on the current tree, record it again
# --------------------------------------------------------------------------------------------------
def _build(iindex, rep):
    ents = {tuple(e["k"]): np.array(e["rows"], dtype=np.uint32) for e in rep["ents"]}
    return iindex(ents, rep["common"], tuple(rep["shape"]))


def _arr(a, shape):
    return np.array(a, dtype=np.int64).reshape(tuple(shape))


def reexecute(rec, ev):
    """ev: a serialised event (plain ints). Returns True if the operation could be re-executed."""
    ii = rec.iindex
    op, a = ev["op"], ev["args"]
    recv = _build(ii, ev["recv"]) if ev["recv"]["shape"] != [0] or ev["recv"]["ents"] or op not in ("from_array", "column_stack", "eq", "common_common") else None
    others = [_build(ii, o) for o in ev.get("others", [])]
    mp = lambda: {k: v for k, v in a["mapping"]} if a.get("hasmapping") else None  # noqa
    if op == "from_array":
        arr = _arr(a["a"], a["shape"])
        counts = None
        if a.get("hascounts"):
            vals, cnt = np.unique(arr, return_counts=True)
            counts = dict(zip(vals.tolist(), cnt.tolist()))
        rec.from_array(arr, common=a["common"] if a["hascommon"] else None, mapping=mp(), counts=counts)
    elif op == "to_array":
        rec.to_array(recv, mapping=mp(), dtype=a["dtype"] or None)
    elif op == "shift_common":
        rec.shift_common(recv, a["v"] if a["hasv"] else None)
    elif op == "append":
        rec.append(recv, others[0])
    elif op == "update":
        rec.update(recv, {tuple(c["k"]): c["rows"] for c in a["cells"]})
    elif op == "filtered":
        rec.filtered(recv, a["mask"])
    elif op == "sliced":
        rec.sliced(recv, [None if o["t"] == "none" else o["i"] if o["t"] == "int" else o["l"] for o in a["orders"]])
    elif op == "slices1d":
        rec.slices1d(recv)
    elif op == "reindexed":
        rec.reindexed(recv, mp(), copy=a["copy"], shift=a["shift"], assume_unique=a["assume_unique"])
    elif op == "collapsed":
        rec.collapsed(recv, a["precedence"], mp())
    elif op == "copy":
        rec.copy(recv)
    elif op == "column_stack":
        rec.column_stack_op(others, new_common=a["newcommon"] if a["hasnewcommon"] else None, copy=a["copy"])
    elif op == "set_update":
        rec.set_update(recv, a["which"], [(tuple(o["k"]), None if o["none"] else o["rows"]) for o in a["other"]],
                       from_index=others[0] if others else None)
    elif op == "query":
        q = a["q"]
        kw = {}
        if q in ("get", "get_noforce"):
            kw["key"] = tuple(a["key"])
        if q == "common_rowids" and a["hc"]:
            kw["col"] = a["hc"][0]
        rec.query(recv, q, **kw)
    elif op == "eq":
        rec.eq(others[0], others[1])
    elif op == "common_common":
        rec.common_common(others)
    elif op == "set_if":
        rec.set_if(recv, tuple(a["key"]), None if a["none"] else a["rows"], copy=a.get("copy", True))
    else:
        return False
    return True
