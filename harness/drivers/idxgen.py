"""Shared generator of well-formed indexes (placeholder until the IIndex drivers exist)."""
import random


def sample_indexes(tier, seed):
    import numpy as np
    from catii.iindexes import iindex
    rnd = random.Random(seed)
    out = []
    n = 60 if tier == "quick" else 1500
    for _ in range(n):
        rows = rnd.choice([0, 1, 3, 7, 20])
        cols = rnd.choice([None, 1, 2, 4])
        vals = rnd.choice([[0, 1, 2], [0, 255, 256], [5, 65535, 65536, 2 ** 31], [0, 2 ** 32, 2 ** 40]])
        shape = (rows,) if cols is None else (rows, cols)
        a = np.array([rnd.choice(vals) for _ in range(rows * (cols or 1))], dtype=np.int64).reshape(shape)
        common = rnd.choice(vals)
        counts = {}
        for v in a.flat:
            counts[int(v)] = counts.get(int(v), 0) + 1
        counts.setdefault(common, 0)
        out.append(iindex.from_array(a, common=common, counts=counts))
    return out
