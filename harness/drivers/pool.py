"""Driver for pooled / interrupted cube evaluation (C16, C20, C17-history)."""
import multiprocessing.pool
import random
from fractions import Fraction
from unittest import mock

import numpy as np

from .. import sched as sc
from . import cubes as cb
from .index import canonical


class Interrupt(Exception):
    def __init__(self, task):
        Exception.__init__(self, "interrupt at sub-cube %d" % task)
        self.task = task


class HardInterrupt(BaseException):
    """an interrupt that is not an Exception (like KeyboardInterrupt or asyncio.CancelledError)"""

    def __init__(self, task):
        BaseException.__init__(self, "hard interrupt at sub-cube %d" % task)
        self.task = task


def _kind(base, label):
    """an interrupt class derived from `base` that remembers the sub-cube it was raised at"""
    def __init__(self, task):
        base.__init__(self, "%s interrupt at sub-cube %d" % (label, task))
        self.task = task
    return type(label.title().replace("-", "") + "Interrupt", (base,), {"__init__": __init__})


import asyncio as _asyncio  # noqa: E402
# what a caller's callback may raise: the property says "that exception", whatever its class. Classes that the
# interpreter or the standard library treat specially are the interesting ones: StopIteration ends list(map(...))
# and for-loops silently, GeneratorExit/StopIteration are transformed inside generators, KeyboardInterrupt /
# CancelledError / SystemExit are not Exceptions (a pool worker dies of them), and KeyError / ZeroDivisionError /
# MemoryError / ValueError are classes the library itself catches in places.
KINDS = {
    "exception": Interrupt, "base": HardInterrupt,
    "stop": _kind(StopIteration, "stop"), "genexit": _kind(GeneratorExit, "genexit"),
    "kbd": _kind(KeyboardInterrupt, "kbd"), "cancel": _kind(_asyncio.CancelledError, "cancel"),
    "sysexit": _kind(SystemExit, "sysexit"), "lookup": _kind(KeyError, "lookup"),
    "arith": _kind(ZeroDivisionError, "arith"), "memory": _kind(MemoryError, "memory"),
    "value": _kind(ValueError, "value"), "type": _kind(TypeError, "type"), "index": _kind(IndexError, "index"),
    "attr": _kind(AttributeError, "attr"), "runtime": _kind(RuntimeError, "runtime"),
}
SOFT_KINDS = [k for k, c in KINDS.items() if issubclass(c, Exception)]
HARD_KINDS = [k for k, c in KINDS.items() if not issubclass(c, Exception)]


def kind_of(hard):
    """`hard` may be False/True (the two original classes) or one of the KINDS names"""
    if hard is True:
        return "base"
    if not hard:
        return "exception"
    return hard


def make_funcs(kind, case, rnd, names):
    """function objects (ffuncs for the index cube, xfuncs for the array cube) for the aggregates `names`"""
    if kind == "ccube":
        from catii import ffuncs as F
        pre = "ffunc_"
    else:
        from catii import xfuncs as F
        pre = "xfunc_"
    out = []
    for nm in names:
        kw = {"ignore_missing": case.ignore, "return_missing_as": case.rma()}
        fa = case.fact_arg(rnd) if case.fact is not None else None
        wa = case.weights_arg(rnd)
        if nm == "count":
            out.append(getattr(F, pre + "count")(wa, None, **kw))
        elif nm in ("valid_count", "sum", "mean", "stddev", "covariance", "corrcoef"):
            if nm in ("covariance", "corrcoef") and (fa[0] if isinstance(fa, tuple) else fa).ndim < 2:
                continue
            if nm == "corrcoef":
                out.append(getattr(F, pre + nm)(fa, None, **kw))
            else:
                out.append(getattr(F, pre + nm)(fa, wa, **kw))
        elif nm == "quantile":
            out.append(F.xfunc_quantile(fa, 0.5, None, **kw))
        elif nm in ("min", "max"):
            f1 = fa
            if isinstance(fa, tuple):
                f1 = (fa[0][:, 0], fa[1][:, 0]) if fa[0].ndim > 1 else fa
            elif fa.ndim > 1:
                f1 = fa[:, 0]
            out.append(getattr(F, pre + nm)(f1, **{"ignore_missing": case.ignore, "return_missing_as": case.rma()}))
    return out


def flat_outputs(outs):
    """list of results (arrays or (values, validity) tuples) -> list of arrays"""
    flat = []
    for o in outs:
        if isinstance(o, tuple):
            flat += [np.asarray(x) for x in o]
        else:
            flat.append(np.asarray(o))
    return flat


def same_bits(a, b):
    fa, fb = flat_outputs(a), flat_outputs(b)
    if len(fa) != len(fb):
        return False
    for x, y in zip(fa, fb):
        if x.dtype != y.dtype or x.shape != y.shape or x.tobytes() != y.tobytes():
            return False
    return True


class PoolRun:
    """one cube + list of aggregate names; evaluates serially / pooled / interrupted and records traces"""

    def __init__(self, env, kind, case, names, seed, commons=None):
        self.env = env
        self.kind = kind
        self.case = case
        self.names = names
        self.rnd = random.Random(seed)
        self.seed = seed
        if kind == "ccube":
            self.dims = env.index_dims(case, commons=commons)
            self.cube = env.ccube(self.dims, interacting_shape=tuple(case.ishape))
        else:
            self.dims = [d.astype(np.int64) for d in case.dims]
            self.cube = env.xcube(self.dims, interacting_shape=tuple(case.ishape))
        self.T = int(self.cube.scaffold_size)

    def twin(self):
        """a brand-new cube object over identically built dimensions (same commons): nothing has ever run on it"""
        commons = [i.common for i in self.dims] if self.kind == "ccube" else None
        return PoolRun(self.env, self.kind, self.case, self.names, self.seed, commons=commons)

    def funcs(self):
        return make_funcs(self.kind, self.case, random.Random(self.seed), self.names)

    def fresh_serial(self):
        self.cube.parallel = False
        self.cube.check_interrupt = None
        return self.cube.calculate(self.funcs())

    def _instrument(self, funcs, logfill):
        for f in funcs:
            if self.kind == "ccube":
                orig = f.fill_func

                def ff(regions, orig=orig):
                    inner = orig(regions)

                    def wrapped(coords, rowids):
                        logfill()
                        return inner(coords, rowids)
                    return wrapped
                f.fill_func = ff
            else:
                orig = f.fill

                def fl(coordinates, regions, orig=orig):
                    logfill()
                    return orig(coordinates, regions)
                f.fill = fl

    def evaluate(self, mode, P=2, faults=(), sched_seed=0, script=None, switch_prob=0.05, funcs=None, real_pool=False,
                 hard=False, force_at=None):
        """returns (trace dict, outputs or None, funcs)"""
        faults = set(faults)
        cube = self.cube
        funcs = funcs if funcs is not None else self.funcs()
        sched = sc.Scheduler(seed=sched_seed, switch_prob=switch_prob, script=script, force_at=force_at)
        if mode == "pool" and not real_pool and script is None:
            import catii.ccubes, catii.xcubes, catii.ffuncs, catii.xfuncs, catii.iindexes
            sched.install([catii.ccubes, catii.xcubes, catii.ffuncs, catii.xfuncs, catii.iindexes])
        counter = {"n": 0}

        def where():
            if mode == "pool" and not real_pool:
                w = sched.current
                return w, sched.task_of.get(w, 0)
            return 0, counter["n"]

        def cb_():
            if mode == "serial":
                counter["n"] += 1
            w, t = where()
            raised = t in faults
            sched.boundary(w, "check", w, t, raised) if (mode == "pool" and not real_pool) else sched.log.append(("check", w, t, raised))
            if raised:
                raise KINDS[kind_of(hard)](t)

        def logfill():
            w, t = where()
            sched.log.append(("fill", w, t))

        if not real_pool:
            self._instrument(funcs, logfill)
        # what kind of callable the caller hands over is the caller's business too: a plain function, or an object that
        # happens to be falsy (a budget whose len() is what is left of it, a deadline that is "expired" when false)
        style = getattr(self, "callback_style", "function")
        if style == "falsy-object":
            class Budget:
                def __call__(self_inner):
                    return cb_()

                def __len__(self_inner):
                    return 0
            handed = Budget()
        elif style == "bool-false-object":
            class Deadline:
                def __call__(self_inner):
                    return cb_()

                def __bool__(self_inner):
                    return False
            handed = Deadline()
        else:
            handed = cb_
        # ... and where it is installed: on the cube, or on the cube's class (where poolsize and debug are declared too),
        # from which every cube - also the ones the library builds internally - inherits it
        on_class = getattr(self, "callback_place", "instance") == "class" and not real_pool
        if on_class:
            cube.__dict__.pop("check_interrupt", None)
            type(cube).check_interrupt = staticmethod(handed)      # (a plain function stored on a class would be bound)
        else:
            cube.check_interrupt = handed if not real_pool else None
        cube.parallel = mode == "pool"
        cube.poolsize = P
        outcome, outs, tagok = "returned", None, True
        try:
            if mode == "pool" and not real_pool:
                Pool = sc.make_pool_class(sched)
                if self.kind == "ccube":
                    with mock.patch.object(multiprocessing.pool, "ThreadPool", Pool):
                        outs = cube.calculate(funcs)
                else:
                    cube.pool_class = Pool
                    outs = cube.calculate(funcs)
            else:
                outs = cube.calculate(funcs)
        except sc.PoolHang:
            outcome = "hung"
            tagok = False
        except BaseException as e:  # noqa
            outcome = "raised"
            tagok = type(e) is KINDS[kind_of(hard)] and getattr(e, "task", None) in faults
            if not tagok:
                self.last_exc = "%s: %s" % (type(e).__name__, e)
        finally:
            sched.uninstall()
            if on_class:
                type(cube).check_interrupt = None
            cube.check_interrupt = None
            if self.kind == "xcube":
                try:
                    del cube.pool_class
                except AttributeError:
                    pass
        cs = 1
        events = []
        wid = lambda w: 0 if w is None else w      # 0: a thread that is not a worker of the pool (the caller's own)  # noqa
        for ev in sched.log:
            if ev[0] == "map":
                cs = ev[3]
            elif ev[0] == "take":
                events.append({"e": "take", "w": wid(ev[1]), "t": ev[2], "raised": False})
            elif ev[0] == "check":
                events.append({"e": "check", "w": wid(ev[1]), "t": ev[2], "raised": bool(ev[3])})
            elif ev[0] == "fill":
                events.append({"e": "fill", "w": wid(ev[1]), "t": ev[2], "raised": False})
            elif ev[0] == "end" and mode == "pool":
                events.append({"e": "end", "w": wid(ev[1]), "t": ev[2], "raised": False})
        trace = {"mode": mode, "P": P if mode == "pool" else 0, "T": self.T, "CS": cs, "faults": sorted(faults),
                 "events": events, "outcome": outcome, "tagok": bool(tagok), "sameasserial": True, "secondok": True,
                 "steps": sched.steps, "switches": sched.switches, "pools": sched.pools}
        return trace, outs, funcs


def scaffold_case(gen, rnd, func, tasks_min=3):
    """a shared-aggregate instance whose dimensions carry extra axes with more than two sub-cubes"""
    while True:
        nd = rnd.choice([1, 2, 2])
        extra = [rnd.choice([(), (2,), (3,), (2, 2), (4,), (5,)]) for _ in range(nd)]
        t = int(np.prod([e for es in extra for e in es] or [1]))
        if tasks_min <= t <= 12:
            break
    case = gen.shared_case(func, nd=nd, maxrows=6, extra=extra, pad=False)
    return case
