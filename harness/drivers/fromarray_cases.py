"""C01 driver: from_array / to_array over every option combination, both construction strategies."""
import itertools
import random

import numpy as np


def small_arrays(maxrows=3):
    """every 1-D array over {0,1,2} with <= maxrows rows, every 2-D (rows<=2, cols<=2) array"""
    out = []
    for n in range(0, maxrows + 1):
        for t in itertools.product([0, 1, 2], repeat=n):
            out.append(np.array(t, dtype=np.int64).reshape((n,)))
    for r, c in [(0, 2), (1, 2), (2, 2), (2, 1), (3, 0)]:
        for t in itertools.product([0, 1, 2], repeat=r * c):
            out.append(np.array(t, dtype=np.int64).reshape((r, c)))
    return out


MAPPINGS = [None, {0: 0, 1: 1, 2: 2, 3: 3}, {0: 5, 1: 0, 2: 7, 3: 1}, {0: 0, 1: 5, 2: 5, 3: 3}, {0: 1, 1: 1, 2: 1, 3: 1},
            {0: 2, 1: 2, 2: 0, 3: 0}]


def run_cases(rec, tier, seed):
    rnd = random.Random(seed)
    arrays = small_arrays(3 if tier == "quick" else 4)
    if tier == "quick":
        arrays = arrays[:: 2]
    for a in arrays:
        vals = sorted(set(a.ravel().tolist()))
        for common in (None, 0, 2, 3):          # 3 is absent from every array
            for mapping in (MAPPINGS if tier == "thorough" else rnd.sample(MAPPINGS, 3)):
                for with_counts in (False, True):
                    if a.size == 0 and common is None and mapping is None and with_counts:
                        continue
                    counts = None
                    if with_counts:
                        counts = {v: int((a == v).sum()) for v in vals}
                    if rnd.random() < (0.25 if tier == "quick" else 1.0):
                        form = rnd.choice(["int64", "int64", "uint8", "int32", "int16", "list"])
                        arg = a.tolist() if (form == "list" and a.ndim == 1) else a.astype(form if form != "list" else "int64")
                        idx = rec.from_array(arg, common=common, mapping=mapping, counts=counts)
                        if idx is not None and rnd.random() < 0.5:
                            way_back(rec, idx, rnd)
    # larger / sparser arrays: the row-scan construction strategy needs >= 5 distinct values and few uncommon cells
    n_big = 70 if tier == "quick" else 1500
    for _ in range(n_big):
        rows = rnd.choice([80, 120, 200, 400, 400, 1000])      # (the row-scan strategy needs well under 5 % uncommon cells)
        ndim = rnd.choice([1, 1, 2])
        cols = rnd.choice([1, 2, 3])
        shape = (rows,) if ndim == 1 else (rows, cols)
        U = rnd.choice([[0, 1, 2, 3, 4, 5], [7, 255, 256, 65535, 65536, 3], [-3, -1, 0, 1, 2, 9],
                        [0, 1, 2, 3, 4, 5, 6, 7, 8, 9, 10, 11], [0, 2 ** 31, 2 ** 40, 5, 6, 7]])
        fav = rnd.choice(U)
        p = rnd.choice([0.004, 0.01, 0.01, 0.03, 0.08, 0.3])
        flat = [fav] * int(np.prod(shape))
        for v in U:                                   # make sure every value occurs at least once
            flat[rnd.randrange(len(flat))] = v
        for i in range(len(flat)):
            if rnd.random() < p:
                flat[i] = rnd.choice(U)
        a = np.array(flat, dtype=np.int64).reshape(shape)
        vals = sorted(set(a.ravel().tolist()))
        common = rnd.choice([None, None, fav, rnd.choice(U), max(U) + 1])
        mapping = None
        r = rnd.random()
        if r < 0.3:
            mapping = {v: v + 1 for v in vals}
        elif r < 0.65:
            tg = rnd.sample(range(0, 50), 3)
            mapping = {v: rnd.choice(tg) for v in vals}
            if rnd.random() < 0.5:
                # a fixed code book: the mapping also mentions values that do not occur in this array
                for extra in range(max(U) + 2, max(U) + 2 + rnd.randint(1, 6)):
                    if abs(extra) < 2 ** 62:
                        mapping[extra] = rnd.choice(tg + [51, 52, 53])
        if r >= 0.65 and r < 0.72:
            mapping = {v: 7 for v in vals}          # every value of the data goes to the same output
        if mapping is not None and common is not None and common not in mapping:
            mapping[common] = rnd.choice(list(mapping.values()))
        counts = {v: int((a == v).sum()) for v in vals} if rnd.random() < 0.5 else None
        if any(abs(v) >= 2 ** 31 for v in vals) and counts is None and min(vals) >= 0 and rnd.random() < 0.7:
            counts = {v: int((a == v).sum()) for v in vals}
        idx = rec.from_array(a, common=common, mapping=mapping, counts=counts)
        if idx is not None:
            way_back(rec, idx, rnd)
        if counts is not None:
            # a caller keeps its counts dict and passes the SAME object to another construction of the same data
            c2 = rnd.choice([None, None, None, max(U) + 1, rnd.choice(U)])
            m2 = mapping if (mapping is None or c2 is None or c2 in mapping) else None
            idx2 = rec.from_array(a, common=c2, mapping=m2, counts=counts)
            if idx2 is not None:
                way_back(rec, idx2, rnd)
    # dtype-boundary values, negatives, zero rows
    for vals in ([255, 256], [65535, 65536], [2 ** 31 - 1, 2 ** 31], [-1, 0, -1, 2], [-129, 127], [2 ** 40, 0],
                 [-(2 ** 40), 5], [2 ** 63 - 1, 0, 2 ** 63 - 1],
                 # every signed boundary from both sides, next to a negative value
                 [-1, 127], [-1, 128], [-128, 128], [-129, 5], [-1, 32767], [-1, 32768], [-32768, 32768], [-32769, 1],
                 [-1, 2 ** 31 - 1], [-1, 2 ** 31], [-(2 ** 31), 2 ** 31], [-(2 ** 31) - 1, 0], [-(2 ** 63), 2 ** 63 - 1]):
        for common in (None, vals[0], vals[-1]):
            for counts in (None, {v: vals.count(v) for v in set(vals)}):
                a = np.array(vals, dtype=np.int64)
                idx = rec.from_array(a, common=common, counts=counts)
                if idx is not None:
                    way_back(rec, idx, rnd, all_ways=True)
    for shape in ((0,), (0, 2), (0, 0)):
        a = np.zeros(shape, dtype=np.int64)
        for common, mapping in ((None, None), (4, None), (None, {0: 1, 4: 2}), (4, {4: 9, 0: 1})):
            idx = rec.from_array(a, common=common, mapping=mapping)
            if idx is not None:
                way_back(rec, idx, rnd, all_ways=True)


def way_back(rec, idx, rnd, all_ways=False):
    from .index import dense_of
    ways = ["default", "int64", "mapping"] if all_ways else [rnd.choice(["default", "default", "int64", "mapping"])]
    for w in ways:
        if w == "default":
            rec.to_array(idx)
        elif w == "int64":
            rec.to_array(idx, dtype=np.int64)
        else:
            present = sorted(set(dense_of(idx).ravel().tolist()) | {idx.common})
            if not present:
                continue
            tg = [0, 1, 7, 300, -2]
            rec.to_array(idx, mapping={v: rnd.choice(tg) for v in present})
