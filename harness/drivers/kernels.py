"""Driver for the sorted-set kernels (C08, C09): enumerate inputs, call the rebuilt kernel,
emit rank-abstracted events for Trace_SetKernels.tla."""
import itertools
import json
import os
import random
import subprocess
import sys
from pathlib import Path

M32 = 2 ** 32 - 1


def universe(tier):
    if tier == "thorough":
        return [0, 1, 2, 7, 2 ** 31 - 1, 2 ** 31, M32 - 1, M32]
    return [0, 1, 2 ** 31 - 1, 2 ** 31, M32 - 1, M32]


def subsets(u):
    out = []
    for r in range(len(u) + 1):
        out += [list(c) for c in itertools.combinations(u, r)]
    return out


def harvest_pyx_constants(lo=48, hi=8192):
    """integer literals and constant shifts of the current set_operations.pyx (C19's partition refinement, applied to sizes)"""
    import re
    from .. import build
    try:
        src = (build.REPO / "src" / "catii" / "set_operations.pyx").read_text()
    except Exception:  # noqa
        return []
    src = re.sub(r"#.*", "", src)
    out = {int(m) for m in re.findall(r"(?<![\w.])(\d{2,})(?![\w.])", src)} | {1 << int(m) for m in re.findall(r"1\s*<<\s*(\d+)", src)}
    return sorted(v for v in out if lo <= v <= hi)


def gen_cases(tier, seed):
    rnd = random.Random(seed)
    u = universe(tier)
    subs = subsets(u)
    cases = []
    for op in ("inter", "union", "diff"):
        for A in subs:
            for B in subs:
                cases.append({"kind": "kernel", "op": op, "A": A, "B": B})
    # non-contiguous operands (the kernels take strided views): every second element of a padded buffer, and a
    # reversed view of a descending buffer; same pairs over a 4-point sub-universe
    su = subsets([u[0], u[1], u[-2], u[-1]])
    for op in ("inter", "union", "diff"):
        for A in su:
            for B in su:
                for la, lb in (("stride2", "contig"), ("contig", "stride2"), ("reversed", "stride2"), ("stride2", "reversed")):
                    cases.append({"kind": "kernel", "op": op, "A": A, "B": B, "layoutA": la, "layoutB": lb})
    # operands that are two views of the same buffer: equal start with different strides, equal length, nested, shifted,
    # the very same view twice
    for buf in ([0, 1, 2, 3, 4, 5, 6, 7, 8, 9], [5, 7, 2 ** 31, M32 - 3, M32 - 1, M32], list(range(10, 43, 3))):
        n = len(buf)
        specs = [(0, n, 1), (0, n // 2, 1), (0, n, 2), (0, n, 3), (1, n, 1), (1, n, 2), (2, n - 1, 1), (n // 2, n, 1), (0, 1, 1), (0, 0, 1)]
        for sa in specs:
            for sb in specs:
                for op in ("inter", "union", "diff"):
                    cases.append({"kind": "kernel", "op": op, "A": buf[slice(*sa)], "B": buf[slice(*sb)],
                                  "views": {"buf": buf, "a": list(sa), "b": list(sb)}})
    # wrappers: every None / empty / non-empty combination, plus all pairs over a 4-point universe
    wu = [0, 5, 2 ** 31, M32]
    wsubs = [None] + subsets(wu)
    for op in ("inter", "union", "diff"):
        for a in wsubs:
            for b in wsubs:
                flags = [{}]
                if op == "union":
                    flags = [{}, {"copy_left": True, "copy_right": True}]
                elif op == "diff":
                    flags = [{}, {"copy": True}]
                for fl in flags:
                    cases.append({"kind": "wrapper", "op": op, "a": a, "b": b, "flags": fl})
    # multi-way union: all lists of 0..3 arrays over a small universe incl. the uint32 extremes
    mu = [0, 3, M32] if tier == "quick" else [0, 3, M32 - 1, M32]
    msubs = subsets(mu)
    for k in range(0, 4):
        for L in itertools.product(msubs, repeat=k):
            cases.append({"kind": "many", "L": [list(x) for x in L]})
            if k and len(cases) % 3 == 0:
                cases.append({"kind": "many", "L": [list(x) for x in L], "ro": True})      # read-only operands
    for op in ("inter", "union", "diff"):
        for a in wsubs[:: 2]:
            for b in wsubs[1:: 2]:
                cases.append({"kind": "wrapper", "op": op, "a": a, "b": b, "flags": {}, "ro": True})
    for op in ("inter", "union", "diff"):
        for A in su:
            for B in su:
                cases.append({"kind": "kernel", "op": op, "A": A, "B": B, "layoutA": "readonly", "layoutB": "readonly"})
    # random longer inputs, biased to shared elements / touching ends / nested ranges
    n = 2500 if tier == "quick" else 40000
    for _ in range(n):
        hi = rnd.choice([50, 400, M32])
        la, lb = rnd.randint(0, 200), rnd.randint(0, 200)
        if hi < 400:
            la, lb = min(la, hi), min(lb, hi)
        A = sorted(rnd.sample(range(hi + 1), la)) if hi < 10 ** 6 else sorted({rnd.randint(0, hi) for _ in range(la)})
        mode = rnd.random()
        if mode < 0.3 and A:
            B = sorted(set(rnd.sample(A, rnd.randint(0, len(A)))) | {rnd.randint(0, hi) for _ in range(rnd.randint(0, 5))})
        elif mode < 0.4 and A:
            B = [x for x in range(A[-1], min(hi, A[-1] + rnd.randint(0, 30)) + 1)]
        else:
            B = sorted({rnd.randint(0, hi) for _ in range(lb)})
        cases.append({"kind": "kernel", "op": rnd.choice(["inter", "union", "diff"]), "A": A, "B": B})
    # structured long inputs aimed at block-wise / galloping merge optimisations: a dense run against single elements
    # (and short lists) that sit exactly at, just before and just after block boundaries of every power-of-two size
    base0 = rnd.choice([0, 7, 1000])
    for length in ((70, 131, 300) if tier == "quick" else (65, 70, 129, 131, 257, 300, 520)):
        dense = list(range(base0, base0 + length))
        picks = set()
        for bs in (4, 8, 16, 32, 64, 128, 256):
            for k in range(1, length // bs + 1):
                for d in (-1, 0, 1):
                    if 0 <= k * bs + d < length:
                        picks.add(k * bs + d)
        picks = sorted(picks)
        sparse_sets = [[dense[q]] for q in picks] + [[dense[q] for q in picks[i::7]] for i in range(7)]
        if tier == "quick":
            sparse_sets = sparse_sets[:: 2]
        for sp in sparse_sets:
            for op in ("inter", "union", "diff"):
                cases.append({"kind": "kernel", "op": op, "A": dense, "B": sp})
                cases.append({"kind": "kernel", "op": op, "A": sp, "B": dense})
    # the same idea at the scale of larger blocks: 1024, 2048 (4096 thorough) and every integer constant the current
    # .pyx source mentions (a block or leap size is a boundary): dense runs of length c+1, 2c+1 against single elements
    # placed around every multiple of c from the front and from the back
    blocks = sorted({1024, 2048} | ({4096} if tier == "thorough" else set()) | set(harvest_pyx_constants()))
    for c in blocks:
        for length in (c + 1, 2 * c + 1):
            dense = list(range(3, 3 + length))
            picks = sorted({q for k in (1, 2) for d in (-1, 0, 1) for q in (k * c + d, length - 1 - (k * c + d), length - (k * c + d))
                            if 0 <= q < length} | {0, length - 1})
            sparse_sets = [[dense[q]] for q in picks] + [[dense[q] for q in picks[i::3]] for i in range(3)]
            for sp in sparse_sets:
                for op in ("inter", "union", "diff"):
                    cases.append({"kind": "kernel", "op": op, "A": dense, "B": sp})
                    cases.append({"kind": "kernel", "op": op, "A": sp, "B": dense})
    for _ in range(n // 4):
        k = rnd.randint(0, 6)
        hi = rnd.choice([20, 300, M32])
        L = [sorted({rnd.randint(0, hi) for _ in range(rnd.randint(0, 40))}) for _ in range(k)]
        if L and rnd.random() < 0.3:
            L[0] = sorted(set(L[0]) | {M32})
        cases.append({"kind": "many", "L": L})
    # long lists: a multi-way union that folds or batches its operands has a boundary at some NUMBER of arrays; every
    # array owns one element no other array has (losing an array loses an element) next to shared ones; every length
    # 7..40 (and around every constant of the source), with the owned element placed first, last or in the middle
    ks = set(range(7, 41 if tier == "quick" else 70)) | {c + d for c in harvest_pyx_constants() for d in (-1, 0, 1) if 7 <= c + d <= 300}
    for k in sorted(ks):
        for where in ("first", "last", "mid"):
            shared = sorted(rnd.sample(range(1000, 1200), rnd.randint(0, 6)))
            L = []
            for q in range(k):
                own = {"first": q, "last": 5000 + q, "mid": 1100 + 0 * q}[where]
                mine = sorted(set(rnd.sample(shared, rnd.randint(0, len(shared))) + ([own] if where != "mid" else [2000 + q, 10 + q])))
                L.append(mine)
            if rnd.random() < 0.3:
                L.insert(rnd.randrange(len(L)), [])
            cases.append({"kind": "many", "L": L})
    return cases


def _ranks(values):
    table = sorted(set(values))
    return {v: i for i, v in enumerate(table)}


class GuardPages:
    """allocates uint32 arrays so that the last element is immediately followed by an inaccessible page
    (odd calls: the first element is immediately preceded by one): any access outside the array faults"""

    def __init__(self):
        import ctypes, mmap
        self.ctypes, self.mmap = ctypes, mmap
        self.libc = ctypes.CDLL(None, use_errno=True)
        self.page = mmap.PAGESIZE
        self.keep = []
        self.n = 0

    def place(self, x):
        import numpy as np
        ctypes, mmap = self.ctypes, self.mmap
        nbytes = 4 * len(x)
        pages = (nbytes + self.page - 1) // self.page + 2
        m = mmap.mmap(-1, pages * self.page)
        base = ctypes.addressof(ctypes.c_char.from_buffer(m))
        self.n += 1
        if self.n % 2:       # guard page after the data
            if self.libc.mprotect(ctypes.c_void_p(base + (pages - 1) * self.page), self.page, 0) != 0:
                raise OSError("mprotect failed")
            off = (pages - 1) * self.page - nbytes
        else:                # guard page before the data
            if self.libc.mprotect(ctypes.c_void_p(base), self.page, 0) != 0:
                raise OSError("mprotect failed")
            off = self.page
        a = np.frombuffer(m, dtype=np.uint32, count=len(x), offset=off)
        a[:] = x
        self.keep.append(m)
        if len(self.keep) > 64:
            self.keep = self.keep[-8:]
        return a


def execute(cases, mod, asan_log=None, guard=None, progress=None):
    """Run every case on the kernel module `mod`; returns events (one per case)."""
    import numpy as np

    def arr(x, layout="contig"):
        if x is None:
            return None
        if layout == "stride2":
            if guard is not None and len(x):
                # no padding after the last element: it sits right before the inaccessible page
                base = guard.place([0xDEADBEEF] * (2 * len(x) - 1))
                base[0::2] = x
                return base[0::2]
            base = np.full(2 * len(x) + 1, 0xDEADBEEF, dtype=np.uint32)
            base[0:2 * len(x):2] = x
            return base[0:2 * len(x):2]
        if layout == "reversed":
            if guard is not None and len(x):
                base = guard.place(list(reversed(x)))
                return base[::-1]
            base = np.array(list(reversed(x)) + [0xDEADBEEF], dtype=np.uint32)
            return base[:len(x)][::-1]
        if guard is not None:
            return guard.place(x)
        a = np.array(x, dtype=np.uint32)
        if layout == "readonly":
            a.flags.writeable = False          # row ids loaded from an INDX file sit in a read-only mapping
        return a

    kern = {"inter": mod.set_intersect_merge_np, "union": mod.set_union_merge_np, "diff": mod.set_difference_merge_np}
    wrap = {"inter": mod.intersection, "union": mod.union, "diff": mod.difference}

    def asan_size():
        if not asan_log:
            return 0
        tot = 0
        d = os.path.dirname(asan_log)
        for f in os.listdir(d):
            if f.startswith(os.path.basename(asan_log)):
                tot += os.path.getsize(os.path.join(d, f))
        return tot

    events = []
    for tid, c in enumerate(cases, 1):
        ev = {"tid": tid, "kind": c["kind"], "oob": False, "asan": False, "exc": False, "alien": False,
              "dtype": "uint32"}
        before = asan_size()
        ret = None
        if progress is not None:
            with open(progress, "w") as pf:
                pf.write(str(tid))
        try:
            if c["kind"] == "kernel" and "views" in c:
                # both operands are views of ONE buffer (a caller's table): same start or overlapping, different strides
                ins = list(c["A"]) + list(c["B"])
                buf = arr(c["views"]["buf"])
                ret = kern[c["op"]](buf[slice(*c["views"]["a"])], buf[slice(*c["views"]["b"])])
            elif c["kind"] == "kernel":
                ins = list(c["A"]) + list(c["B"])
                ret = kern[c["op"]](arr(c["A"], c.get("layoutA", "contig")), arr(c["B"], c.get("layoutB", "contig")))
            elif c["kind"] == "wrapper":
                ins = list(c["a"] or []) + list(c["b"] or [])
                lay = "readonly" if c.get("ro") else "contig"
                ret = wrap[c["op"]](arr(c["a"], lay), arr(c["b"], lay), **c.get("flags", {}))
            else:
                ins = [x for a in c["L"] for x in a]
                ret = mod.set_union_merge_many([arr(a, "readonly" if c.get("ro") else "contig") for a in c["L"]])
        except IndexError as e:
            ev["oob"] = "bounds" in str(e).lower()
            ev["exc"] = not ev["oob"]
            ev["excmsg"] = "%s: %s" % (type(e).__name__, e)
        except Exception as e:  # noqa
            ev["exc"] = True
            ev["excmsg"] = "%s: %s" % (type(e).__name__, e)
        if asan_size() != before:
            ev["asan"] = True
        rk = _ranks(ins)

        def R(xs):
            out = []
            for x in xs:
                x = int(x)
                if x not in rk:
                    ev["alien"] = True
                    out.append(-1)
                else:
                    out.append(rk[x])
            return out

        if ret is not None:
            ev["dtype"] = str(ret.dtype)
            if ret.ndim != 1:
                ev["alien"] = True
                ret = ret.ravel()
        if c["kind"] == "kernel":
            ev.update(op=c["op"], A=R(c["A"]), B=R(c["B"]), ret=R(ret if ret is not None else []))
            if ret is None and not (ev["exc"] or ev["oob"]):
                ev["exc"] = True
                ev["excmsg"] = "kernel returned None"
        elif c["kind"] == "wrapper":
            def O(x):
                return {"none": x is None, "v": R(x if x is not None else [])}
            ev.update(op=c["op"], a=O(c["a"]), b=O(c["b"]), r=O(ret))
        else:
            ev.update(L=[R(a) for a in c["L"]], ret=R(ret if ret is not None else []))
        events.append(ev)
    return events


def _load_standalone(so):
    import importlib.machinery
    import importlib.util
    loader = importlib.machinery.ExtensionFileLoader("catii.set_operations", so)
    spec = importlib.util.spec_from_file_location("catii.set_operations", so, loader=loader)
    mod = importlib.util.module_from_spec(spec)
    loader.exec_module(mod)
    return mod


def execute_subprocess(cases, so, asan_runtime=None, workdir="."):
    """Run execute() in a fresh interpreter (needed for the ASan build: LD_PRELOAD)."""
    inp = os.path.join(workdir, "cases.json")
    outp = os.path.join(workdir, "events.json")
    json.dump(cases, open(inp, "w"))
    env = dict(os.environ)
    log = None
    if asan_runtime:
        log = os.path.join(workdir, "asan.log")
        env.update(LD_PRELOAD=asan_runtime, PYTHONMALLOC="malloc",
                   ASAN_OPTIONS="detect_leaks=0:halt_on_error=0:log_path=%s:allocator_may_return_null=1" % log)
    cmd = [sys.executable, "-c",
           "import sys, json; sys.path.insert(0, %r); from harness.drivers import kernels as k; "
           "m = k._load_standalone(%r); ev = k.execute(json.load(open(%r)), m, %r); json.dump(ev, open(%r, 'w'))"
           % (str(Path(__file__).resolve().parents[2]), so, inp, log, outp)]
    p = subprocess.run(cmd, env=env, capture_output=True, text=True, timeout=3600)
    if p.returncode != 0 or not os.path.exists(outp):
        raise RuntimeError("kernel subprocess failed rc=%s\n%s" % (p.returncode, (p.stdout + p.stderr)[-2000:]))
    return json.load(open(outp))


def execute_threaded(cases, mod, threads=4):
    """the same cases issued from several threads at once (the kernels release the GIL, so they really overlap): every
    call must still return the set operation of ITS operands"""
    from multiprocessing.pool import ThreadPool
    old = sys.getswitchinterval()
    sys.setswitchinterval(1e-6)
    try:
        shards = [list(range(k, len(cases), threads)) for k in range(threads)]
        with ThreadPool(threads) as pool:
            parts = pool.map(lambda idxs: execute([cases[i] for i in idxs], mod), shards)
    finally:
        sys.setswitchinterval(old)
    events = [None] * len(cases)
    for idxs, evs in zip(shards, parts):
        for i, ev in zip(idxs, evs):
            ev["tid"] = i + 1
            events[i] = ev
    return events


def _guard_event(c, tid, why):
    ev = {"tid": tid, "kind": c["kind"], "oob": False, "asan": True, "exc": False, "alien": False, "dtype": "uint32", "excmsg": why}
    if c["kind"] == "kernel":
        rk = _ranks(list(c["A"]) + list(c["B"]))
        ev.update(op=c["op"], A=[rk[x] for x in c["A"]], B=[rk[x] for x in c["B"]], ret=[])
    elif c["kind"] == "wrapper":
        rk = _ranks(list(c["a"] or []) + list(c["b"] or []))
        O = lambda x: {"none": x is None, "v": [rk[v] for v in (x or [])]}  # noqa
        ev.update(op=c["op"], a=O(c["a"]), b=O(c["b"]), r={"none": True, "v": []})
    else:
        rk = _ranks([x for a in c["L"] for x in a])
        ev.update(L=[[rk[x] for x in a] for a in c["L"]], ret=[])
    return ev


def execute_guarded(cases, so, workdir="."):
    """Run every case in child processes with the operands placed against inaccessible pages. A child that dies
    (SIGSEGV/SIGBUS at the access, or abort()/SIGSEGV later from a heap the kernel has written over) is bisected:
    the two halves of its cases are run again in fresh children, down to single cases; a single case whose child
    dies is reported with guard=True (through the `asan` field). A fault is attributed to a case only when the case
    kills a child all by itself or as the last of the smallest dying run."""
    inp = os.path.join(workdir, "gcases.json")
    outp = os.path.join(workdir, "gevents.json")
    prog = os.path.join(workdir, "gprogress")
    root = str(Path(__file__).resolve().parents[2])

    def child(chunk):
        json.dump(chunk, open(inp, "w"))
        for f in (outp, prog):
            if os.path.exists(f):
                os.unlink(f)
        cmd = [sys.executable, "-c",
               "import sys, json; sys.path.insert(0, %r); from harness.drivers import kernels as k; "
               "m = k._load_standalone(%r); g = k.GuardPages(); ev = k.execute(json.load(open(%r)), m, None, g, %r); "
               "json.dump(ev, open(%r, 'w'))" % (root, so, inp, prog, outp)]
        p = subprocess.run(cmd, capture_output=True, text=True, timeout=3600)
        if p.returncode == 0 and os.path.exists(outp):
            return json.load(open(outp)), None
        if p.returncode > 0 and "Traceback" in (p.stderr or ""):
            raise RuntimeError("guarded kernel subprocess failed rc=%s\n%s" % (p.returncode, (p.stdout + p.stderr)[-1500:]))
        done = int(open(prog).read()) if os.path.exists(prog) else 0
        return None, (p.returncode, done)

    # worklist instead of recursion; after 40 cases that kill a child all by themselves (each one is reported) or 500
    # children in total the remaining cases are left unexecuted: the evidence is in, and the run stays bounded
    work = [(0, len(cases))]
    events, faults, children = [], 0, 0
    while work and faults < 40 and children < 500:
        lo, hi = work.pop(0)
        if lo >= hi:
            continue
        children += 1
        evs, death = child(cases[lo:hi])
        if evs is not None:
            for e in evs:
                e["tid"] += lo
            events += evs
            continue
        rc, done = death
        why = "child %s (access outside the operand or result buffers)" % (("killed by signal %d" % -rc) if rc < 0 else ("exited with %d" % rc))
        if hi - lo == 1:
            events.append(_guard_event(cases[lo], lo + 1, why))
            faults += 1
        elif 1 <= done <= hi - lo and rc < 0:
            # died while executing case number `done` of this chunk: everything before it is run again on its own (it may
            # die too, if the damage was done earlier), the case itself alone, the rest afterwards
            k = lo + done - 1
            work[0:0] = [(lo, k), (k, k + 1), (k + 1, hi)]
        else:
            mid = (lo + hi) // 2
            work[0:0] = [(lo, mid), (mid, hi)]
    events.sort(key=lambda e: e["tid"])
    return events
