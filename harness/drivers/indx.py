"""Driver for the INDX format (C10, C11, C12): real save / real load / every truncation."""
import itertools
import os
import random

from ..absn import big, unbig

WIDTH_CLASSES = {1: [0, 1, 255], 2: [256, 65535], 4: [65536, 2 ** 32 - 1], 8: [2 ** 32, 2 ** 63 - 1]}
M32 = 2 ** 32 - 1


def xjson(arity, common, ents):
    return {"arity": arity, "common": big(common),
            "ents": [{"c": [big(v) for v in c], "r": [big(v) for v in r]} for c, r in ents]}


def project_loaded(ret):
    import numpy as np
    entries, common, rdt = ret
    ents = []
    inttypes = type(common) is int
    u32 = True
    for coords, rows in entries.items():
        if type(coords) is not tuple or any(type(c) is not int for c in coords):
            inttypes = False
        if not isinstance(rows, np.ndarray) or rows.dtype != np.uint32:
            u32 = False
        ents.append({"c": [big(int(c)) for c in coords], "r": [big(int(v)) for v in np.asarray(rows).tolist()]})
    return {"ok": True, "common": big(int(common)), "ents": ents, "inttypes": inttypes, "u32": u32}


BAD = {"ok": False, "common": [], "ents": [], "inttypes": False, "u32": False}


def load_bytes(IndxIO, data, path, mode="rb"):
    """load what is on disk through a handle of the given mode: read-only, or opened for update the way a temporary
    file is (a loader may map the file differently then - and a mapping opened for update can silently EXTEND a short file)"""
    with open(path, "wb") as f:
        f.write(data)
    with open(path, mode) as f:
        return IndxIO.load(f)


def file_event(IndxIO, tid, arity, common, ents, wd, index=None, cuts=True, unique=False, presave=None, rowdtype=None):
    """save(ents) -> bytes; load(bytes); load(bytes[:k]) for every k."""
    import numpy as np
    path = os.path.join(wd, ("u%d.indx" % tid) if unique else ("f%d.indx" % (tid % 64)))
    rdt = np.dtype(rowdtype or np.uint32)       # the writer takes the row-id word size from its dtype argument
    entries = {}
    np_keys = tid % 5 == 2       # coordinate tuples made of NumPy scalars of the narrowest type (tuple(row) of a typed table)

    def key(c):
        if not np_keys:
            return tuple(c)
        return tuple((np.uint8 if v < 2 ** 8 else np.uint16 if v < 2 ** 16 else np.uint32 if v < 2 ** 32 else np.uint64)(v) for v in c)
    for j, (c, r) in enumerate(ents):
        if (tid + j) % 3 == 0 and len(r):
            # a non-contiguous row-id array: every second element of a padded buffer (a column of a 2-D table)
            base = np.full(2 * len(r), 0xEF, dtype=rdt)
            base[0::2] = r
            entries[key(c)] = base[0::2]
        elif (tid + j) % 3 == 1 and len(r):
            ro = np.array(r, dtype=rdt)
            ro.setflags(write=False)                       # a read-only array (e.g. memory-mapped)
            entries[key(c)] = ro
        else:
            entries[key(c)] = np.array(r, dtype=rdt)
    ev = {"tid": tid, "kind": "file", "x": xjson(arity, common, ents), "rws": int(rdt.itemsize), "saveexc": False, "bytes": [],
          "loaded": BAD, "accepted": [], "rebuilt": True}
    if presave is not None:
        # two-phase use (concurrent_file_events): phase "save" only writes the file, phase "judge" picks it up
        if presave == "save":
            try:
                with open(path, "wb") as f:
                    IndxIO.save(f, entries, common, rdt)
                return None
            except Exception as e:  # noqa
                return "%s: %s" % (type(e).__name__, e)
        if isinstance(presave, str) and presave != "judge":
            ev["saveexc"] = True
            ev["excmsg"] = presave
            return ev
    else:
        try:
            with open(path, "wb") as f:
                IndxIO.save(f, entries, common, rdt)
        except Exception as e:  # noqa
            ev["saveexc"] = True
            ev["excmsg"] = "%s: %s" % (type(e).__name__, e)
            return ev
    data = open(path, "rb").read()
    ev["bytes"] = list(data)
    try:
        with open(path, "r+b" if tid % 4 == 1 else "rb") as f:
            ret = IndxIO.load(f)
        ev["loaded"] = project_loaded(ret)
        if index is not None:
            from catii.iindexes import iindex
            again = iindex({k: np.array(v) for k, v in ret[0].items()}, ret[1], index.shape)
            ok = (again == index) and (index == again)
            try:
                again.validate(True)
            except Exception:
                ok = False
            ev["rebuilt"] = bool(ok)
    except Exception as e:  # noqa
        ev["excmsg"] = "load: %s: %s" % (type(e).__name__, e)
    if cuts:
        for k in range(len(data)):
            try:
                load_bytes(IndxIO, data[:k], path, "r+b" if (k + tid) % 2 else "rb")
                ev["accepted"].append(k)
            except Exception:
                pass
    return ev


def concurrent_file_events(IndxIO, cases, wd, tid0, threads=8):
    """the same saves issued from several threads at once (1 microsecond switch interval, nothing but saves in the
    threads so that they overlap as much as possible): each file must still be the layout of ITS data. Afterwards the
    files are judged one by one like any other save (without the truncation sweep). cases: list of (arity, common, ents)."""
    import sys
    from multiprocessing.pool import ThreadPool
    jobs = list(enumerate(cases, 1))
    old = sys.getswitchinterval()
    sys.setswitchinterval(1e-6)
    try:
        with ThreadPool(threads) as pool:
            outcomes = pool.map(lambda q: file_event(IndxIO, tid0 + q[0], q[1][0], q[1][1], q[1][2], wd, cuts=False, unique=True, presave="save"), jobs)
    finally:
        sys.setswitchinterval(old)
    evs = []
    for (k, (arity, common, ents)), out in zip(jobs, outcomes):
        evs.append(file_event(IndxIO, tid0 + k, arity, common, ents, wd, cuts=False, unique=True, presave="judge" if out is None else out))
        try:
            os.unlink(os.path.join(wd, "u%d.indx" % (tid0 + k)))
        except OSError:
            pass
    return evs


def read_event(IndxIO, tid, case, data, wd):
    path = os.path.join(wd, "r%d.indx" % (tid % 64))
    x = case["x"]
    ev = {"tid": tid, "kind": "read", "x": x, "bytes": list(data), "loaded": BAD, "rebuilt": True}
    try:
        ev["loaded"] = project_loaded(load_bytes(IndxIO, bytes(data), path))
    except Exception as e:  # noqa
        ev["excmsg"] = "load: %s: %s" % (type(e).__name__, e)
    return ev


class FakeRows:
    """Stands in for a uint32 row-id array of `n` elements without materialising it:
    tofile() seeks instead of writing (the file becomes sparse)."""

    def __init__(self, n):
        import numpy as np
        self.n = n
        self.dtype = np.dtype(np.uint32)
        self.ndim = 1
        self.shape = (n,)
        self.size = n
        self.itemsize = 4
        self.nbytes = 4 * n

    def __len__(self):
        return self.n

    def tofile(self, f):
        f.flush()
        f.seek(self.n * 4, 1)
        # make the file really that long so tell() and the size on disk agree
        f.truncate(f.tell())


def size_event(IndxIO, tid, coords_list, common, rowcounts, wd):
    """save() with huge (fake) row arrays; record the 16 header bytes and the file length."""
    import numpy as np
    path = os.path.join(wd, "big%d.indx" % (tid % 8))
    arity = len(coords_list[0])
    entries = {tuple(c): FakeRows(n) for c, n in zip(coords_list, rowcounts)}
    mx = max([v for c in coords_list for v in c] + [common])
    iws = 1 if mx < 256 else 2 if mx < 65536 else 4 if mx < 2 ** 32 else 8
    ev = {"tid": tid, "kind": "size", "arity": arity, "n": len(coords_list), "iws": iws, "rws": 4,
          "rowcounts": [big(n) for n in rowcounts], "saveexc": False, "header": [0] * 16, "filelen": []}
    try:
        import warnings
        with warnings.catch_warnings():
            warnings.simplefilter("ignore")
            with open(path, "wb") as f:
                IndxIO.save(f, entries, common, np.dtype(np.uint32))
    except Exception as e:  # noqa
        ev["saveexc"] = True
        ev["excmsg"] = "%s: %s" % (type(e).__name__, e)
    try:
        with open(path, "rb") as f:
            hdr = f.read(16)
        if len(hdr) == 16:
            ev["header"] = list(hdr)
        ev["filelen"] = big(os.path.getsize(path))
    finally:
        if os.path.exists(path):
            os.unlink(path)
    return ev


def harvest_sizes(IndxIO, cap=1 << 18):
    """integer constants of the current indxio source (literals and constant shifts / powers / products), the way C19
    refines its partition: a block size the code iterates in is a boundary worth standing on"""
    import ast, inspect, sys
    src = inspect.getsource(sys.modules[IndxIO.__module__])
    out = set()

    def const(node):
        try:
            v = eval(compile(ast.Expression(node), "<c>", "eval"), {"__builtins__": {}})   # literals and operators only
            return v if isinstance(v, int) and not isinstance(v, bool) else None
        except Exception:  # noqa
            return None
    for node in ast.walk(ast.parse(src)):
        if isinstance(node, (ast.Constant, ast.BinOp)):
            v = const(node)
            if v is not None and 256 <= v <= cap:
                out.add(v)
    return sorted(out)


def many_event(IndxIO, tid, n, wd, seed=0):
    """save + load of an index with n entries (n in the tens of thousands: too many to lay out byte by byte in TLC).
    The specification judges the counts and a sample of entries (the first and last, those around every power of two,
    random ones); the harness adds whether ALL loaded entries equal the saved ones."""
    import numpy as np
    rnd = random.Random(seed * 7919 + n)
    path = os.path.join(wd, "many%d.indx" % (tid % 8))
    keys = [(1 + (i % 5), i) for i in range(n)]
    rows = [np.array([i % 97, 100 + (i % 13)] if i % 3 == 0 else [i % 251], dtype=np.uint32) for i in range(n)]
    entries = dict(zip(keys, rows))
    ev = {"tid": tid, "kind": "many", "n": n, "nloaded": 0, "saveexc": False, "loadexc": False, "allsame": False,
          "common": 0, "lcommon": -1, "sample": []}
    loaded = None
    try:
        with open(path, "wb") as f:
            IndxIO.save(f, entries, 0, np.dtype(np.uint32))
    except Exception as e:  # noqa
        ev["saveexc"] = True
        ev["excmsg"] = "%s: %s" % (type(e).__name__, e)
    if not ev["saveexc"]:
        try:
            with open(path, "rb") as f:
                loaded, lcommon, _ = IndxIO.load(f)
            ev["nloaded"] = len(loaded)
            ev["lcommon"] = int(lcommon)
        except Exception as e:  # noqa
            ev["loadexc"] = True
            ev["excmsg"] = "%s: %s" % (type(e).__name__, e)
    if loaded is not None:
        pos = {0, n - 1} | {p + d for b in range(4, 20) for p in ((1 << b),) for d in (-2, -1, 0, 1)} | {rnd.randrange(n) for _ in range(24)}
        for q in sorted(x for x in pos if 0 <= x < n):
            lr = loaded.get(keys[q])
            ev["sample"].append({"c": list(keys[q]), "r": rows[q].tolist(), "found": lr is not None,
                                 "lr": [] if lr is None else [int(x) for x in np.asarray(lr).tolist()]})
        ev["allsame"] = len(loaded) == n and all(
            (lambda lr, r: lr is not None and len(lr) == len(r) and bool(np.all(np.asarray(lr) == r)))(loaded.get(k), r)
            for k, r in zip(keys, rows))
    loaded = None
    if os.path.exists(path):
        os.unlink(path)
    return ev


def gen_file_cases(tier, seed):
    """(arity, common, ents) triples: cross product of word-size classes for coordinates and common."""
    rnd = random.Random(seed)
    cases = []
    allvals = [v for w in (1, 2, 4, 8) for v in WIDTH_CLASSES[w]]
    rowsets = [[], [0], [M32], [0, 1], [5, M32], [0, 1, M32 - 1, M32], list(range(3, 40, 4))]
    # no entries
    for c in allvals:
        cases.append((1, c, []))
    # one entry: arity 1..4, coordinate class x common class
    for arity in (1, 2, 3, 4):
        for wc in (1, 2, 4, 8):
            for wcom in (1, 2, 4, 8):
                for rows in rowsets[:5] if tier == "quick" else rowsets:
                    coords = tuple(rnd.choice(WIDTH_CLASSES[wc]) if d == 0 else rnd.choice(WIDTH_CLASSES[rnd.choice([1, wc])])
                                   for d in range(arity))
                    if max(coords) < min(WIDTH_CLASSES[wc]):
                        coords = (WIDTH_CLASSES[wc][-1],) + coords[1:]
                    cases.append((arity, rnd.choice(WIDTH_CLASSES[wcom]), [(coords, rows)]))
    # families whose index blocks are byte-identical but are laid out with a different arity / number of entries
    # (saved and loaded one after the other in the same process)
    for flat in ([1, 2, 3, 4], [7, 300, 300, 7, 9, 11, 0, 5, 70000, 1, 2, 3], [0, 1, 2, 3, 4, 5, 6, 7, 8, 9, 10, 11]):
        for arity in (1, 2, 3, 4, 2, 1, 4):
            if len(flat) % arity:
                continue
            keys = [tuple(flat[i:i + arity]) for i in range(0, len(flat), arity)]
            if len(set(keys)) != len(keys):
                continue
            cases.append((arity, 0, [(k, [j, j + 5]) for j, k in enumerate(keys)]))
    # several entries
    n = 500 if tier == "quick" else 5000
    for _ in range(n):
        arity = rnd.choice([1, 1, 2, 2, 3, 4])
        k = rnd.choice([2, 3, 3, 5, 8]) if tier == "quick" else rnd.choice([2, 3, 5, 8, 20])
        wmax = rnd.choice([1, 2, 4, 8])
        pool = [v for w in (1, 2, 4, 8) if w <= wmax for v in WIDTH_CLASSES[w]] + [rnd.randint(0, 300) for _ in range(4)]
        seen, ents = set(), []
        for _e in range(k):
            c = tuple(rnd.choice(pool) for _d in range(arity))
            if c in seen:
                continue
            seen.add(c)
            ln = rnd.choice([0, 1, 1, 2, 3, 6])
            hi = rnd.choice([10, 300, 70000, M32])
            rows = sorted({rnd.randint(0, hi) for _r in range(ln)})
            if rnd.random() < 0.15:
                rows = sorted(set(rows) | {M32})
            ents.append((c, rows))
        common = rnd.choice([v for w in (1, 2, 4, 8) for v in WIDTH_CLASSES[w]] if rnd.random() < 0.5 else pool)
        cases.append((arity, common, ents))
    return cases


def gen_size_cases(tier):
    G = 2 ** 30
    cs = [([(1,)], 0, [G - 1]), ([(1,)], 0, [G]), ([(1,), (2,)], 0, [G, 5]), ([(1,), (2,)], 0, [G - 1, 1]),
          ([(1, 0), (2, 1)], 7, [2 ** 29, 2 ** 29]), ([(1,), (2,), (3,), (4,)], 0, [G, G, G, G]),
          ([(1,), (70000,)], 0, [2 ** 31, 2 ** 31 + 3]), ([(300,)], 2, [3 * G + 11])]
    return cs


# --------------------------------------------------------------------------------------------------
# crash points of the real writer at system-call granularity (strace)
# --------------------------------------------------------------------------------------------------
CHILD = r'''
import sys, json
sys.path.insert(0, %(verif)r)
from harness import build
build.load_catii()
import numpy as np
from catii.indxio import IndxIO
spec = json.load(open(sys.argv[1]))
entries = {tuple(c): np.array(r, dtype=np.uint32) for c, r in spec["ents"]}
with open(sys.argv[2], "wb") as f:
    IndxIO.save(f, entries, spec["common"], np.dtype(np.uint32))
'''


def syscall_disk_states(arity, common, ents, wd, verif):
    """Run the real save() in a child under strace and replay its write/lseek/pwrite/ftruncate system calls:
    returns (final_bytes, [(label, bytes_on_disk), ...]) with one state after every system call that changes
    the file and one for every byte boundary inside every write."""
    import json as _json
    import re
    import subprocess
    import sys as _sys
    spec = os.path.join(wd, "spec.json")
    out = os.path.join(wd, "traced.indx")
    log = os.path.join(wd, "strace.log")
    child = os.path.join(wd, "child.py")
    open(child, "w").write(CHILD % {"verif": verif})
    _json.dump({"ents": [[list(c), list(r)] for c, r in ents], "common": common}, open(spec, "w"))
    p = subprocess.run(["strace", "-f", "-x", "-s", "1000000", "-e",
                        "trace=openat,write,pwrite64,lseek,ftruncate,close,dup,dup2,dup3,fcntl", "-o", log,
                        _sys.executable, child, spec, out], capture_output=True, text=True, timeout=300)
    if p.returncode != 0 or not os.path.exists(out):
        raise RuntimeError("traced save failed: %s" % (p.stdout + p.stderr)[-800:])
    final = open(out, "rb").read()
    fds, disk, pos, states = set(), bytearray(), 0, []
    started = False

    def unhex(s):
        return bytes(int(x, 16) for x in re.findall(r"\\x([0-9a-f]{2})", s))

    def put(at, data, label):
        nonlocal disk
        for n in range(1, len(data) + 1):
            end = at + n
            if len(disk) < end:
                disk.extend(b"\0" * (end - len(disk)))
            disk[at + n - 1] = data[n - 1]
            states.append(("%s byte %d/%d" % (label, n, len(data)), bytes(disk)))

    for line in open(log):
        m = re.match(r"\d+\s+(\w+)\((.*)\)\s+= (-?\d+)", line)
        if not m:
            continue
        call, args, ret = m.group(1), m.group(2), int(m.group(3))
        if call == "openat" and '"%s"' % out in args and ret >= 0:
            fds, disk, pos, started = {ret}, bytearray(), 0, True
            states.append(("opened (truncated)", b""))
            continue
        if not started or ret < 0:
            continue
        fd = int(re.match(r"(\d+)", args).group(1)) if re.match(r"\d+", args) else None
        if call in ("dup", "dup2", "dup3") and fd in fds:
            fds.add(ret)
        elif call == "fcntl" and fd in fds and "F_DUPFD" in args:
            fds.add(ret)
        elif call == "close" and fd in fds:
            fds.discard(fd)
        elif call == "lseek" and fd in fds:
            pos = ret
        elif call == "write" and fd in fds:
            data = unhex(args)[:ret]
            put(pos, data, "write@%d" % pos)
            pos += ret
        elif call == "pwrite64" and fd in fds:
            off = int(args.rsplit(",", 1)[1])
            put(off, unhex(args)[:ret], "pwrite@%d" % off)
        elif call == "ftruncate" and fd in fds:
            n = int(args.split(",")[1])
            disk = disk[:n] if len(disk) >= n else disk + bytearray(n - len(disk))
            states.append(("ftruncate %d" % n, bytes(disk)))
    if bytes(disk) != final:
        raise RuntimeError("system-call replay does not reproduce the file (%d vs %d bytes)" % (len(disk), len(final)))
    return final, states
