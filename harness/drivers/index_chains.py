"""Seeded random histories of index operations on live objects (L3 driver for C01/C06/C07/C15/C17)."""
import random

import numpy as np

from .index import Recorder, canonical, dense_of, wellformed

UNIVERSES = [
    [0, 1, 2, 3],
    [0, 1, 2],
    [-1, 0, 1, 2],
    [0, 5, 7, 300],
    [0, 255, 256, 65535, 65536],
    [1, 2],
    [-1, 0, 127, 128],
    [-5, 0, 32767, 32768],
    [-2, 1, 2 ** 31 - 1, 2 ** 31],
]
# non-integer category values (tests/test_iindexes_nonint.py): the operations that do no arithmetic on values accept them
STR_UNIVERSES = [["a", "b", "c", "d"], ["x", "xx", "y"], ["0", "1", "10", "2"], ["A", "a", "B", "b", "~"]]
BIG_UNIVERSES = [[0, 2 ** 31, 2 ** 40, 7], [-(2 ** 35), 0, 3, 2 ** 63 - 1], [2 ** 31 - 1, 2 ** 31, 2 ** 32, 2 ** 32 + 1]]


def harvest_size_constants(lo, hi):
    """integer constants of the current iindexes source (C19's partition refinement applied to row counts)"""
    import ast, inspect
    import catii.iindexes as mod
    out = set()
    for node in ast.walk(ast.parse(inspect.getsource(mod))):
        if isinstance(node, (ast.Constant, ast.BinOp)):
            try:
                v = eval(compile(ast.Expression(node), "<c>", "eval"), {"__builtins__": {}})
            except Exception:  # noqa
                continue
            if isinstance(v, int) and not isinstance(v, bool) and lo <= v <= hi:
                out.add(v)
    return sorted(out)


def big_index_events(rec, iindex, tier, seed):
    """indexes with thousands of rows (4097 always; c - 1, c, c + 1, 2c + 1 for every size constant of the current
    source between 1000 and 20000, 200..70000 in the thorough tier): few uncommon cells, six distinct values, uncommon
    cells at the very start, the very end and around every multiple of the constant - the input on which the
    size- and sparsity-dependent strategies of from_array (and of collapsed, which ends in from_array) are chosen"""
    rnd = random.Random(seed)
    consts = harvest_size_constants(1000, 20000) if tier == "quick" else harvest_size_constants(200, 70000)
    sizes = sorted({4097} | {c + d for c in consts for d in (-1, 0, 1)} | {2 * c + 1 for c in consts})
    for n in sizes:
        marks = {0, 1, n - 2, n - 1} | {k * c + d for c in consts + [1024] for k in (1, 2, 3) for d in (-1, 0, 1) if 0 <= k * c + d < n}
        marks |= {rnd.randrange(n) for _ in range(max(8, n // 200))}
        d = np.zeros(n, dtype=np.int64)
        for q in sorted(marks):
            d[q] = rnd.choice([1, 2, 3, 4, 5])
        idx = rec.from_array(d)
        rec.from_array(d, common=7)
        if idx is not None:
            rec.to_array(idx)
            tail = canonical(iindex, np.array([3, 0, 5], dtype=object), 0)
            rec.append(idx, tail)
            mask = np.ones(idx.shape[0], dtype=bool)
            mask[[0, idx.shape[0] // 2, idx.shape[0] - 1]] = False
            rec.filtered(idx, mask)
        d2 = np.stack([d, np.roll(d, 5)], axis=1)
        idx2 = rec.from_array(d2)
        if idx2 is not None:
            rec.collapsed(idx2, [5, 4, 3, 2, 1, 0])
            rec.collapsed(idx2, [2, 0])
    # wide receivers (more columns than one byte counts) through the INDX file format and back: the largest coordinate is a
    # column number, and it does not sit in the entry with the largest category
    for ncols in (257, 300):
        dense = np.zeros((3, ncols), dtype=object)
        dense[0, 5] = 9
        dense[1, ncols - 1] = 1
        dense[2, 256] = 2
        dense[2, 255] = 1
        dense[2, 0] = 1            # a column number that wraps to 0 would put row 2 under two values of column 0
        wide = canonical(iindex, dense, 0)
        rec.indx_roundtrip(wide)
    return {"sizes": sizes, "constants": consts}


def near_tie_events(rec, iindex, tier, seed):
    """the library's own choice of common value when the two most frequent values are one cell apart or level, for every
    cell count up to 80 (a count reconstructed through a rounded ratio is off by one for a few sizes only)"""
    rnd = random.Random(seed)
    for n in range(2, 81 if tier == "quick" else 201):
        for lead in (1, 0):
            hi, lo = (n + lead + 1) // 2, n - (n + lead + 1) // 2
            if lo < 1:
                continue
            shape = (n,) if (n % 2 or rnd.random() < 0.5) else (n // 2, 2)
            a, b = rnd.sample([0, 1, 2, 5], 2)
            if lead and a > b:
                a, b = b, a                      # the runner-up has the larger key
            cells = [a] * hi + [b] * lo
            rnd.shuffle(cells)
            dense = np.array(cells, dtype=object).reshape(shape)
            for start in (a, b, 7):
                idx = canonical(iindex, dense, start)
                which = rnd.choice(["shift", "append", "filtered"])
                if which == "shift":
                    rec.shift_common(idx)
                elif which == "append":
                    rec.append(idx, canonical(iindex, np.zeros((0,) + shape[1:], dtype=object), 7))
                else:
                    rec.filtered(idx, [True] * shape[0])


class Chains:
    def __init__(self, iindex, column_stack, seed):
        self.rnd = random.Random(seed)
        self.iindex = iindex
        self.rec = Recorder(iindex, column_stack)
        # classes the comparison twins of op_eq are built with: the chain's own class and, for a caller's subclass, the
        # plain base class as well (== is about shape, common value and content, whoever's class built the object)
        self.twin_classes = [iindex] + [b for b in iindex.__mro__[1:] if hasattr(b, "from_array")]

    # ---- random data ---------------------------------------------------------------------------
    def rand_dense(self, U, shape, skew=None):
        rnd = self.rnd
        n = int(np.prod(shape)) if shape else 1
        if skew is None:
            skew = rnd.random()
        fav = rnd.choice(U)
        vals = [fav if rnd.random() < skew else rnd.choice(U) for _ in range(n)]
        return np.array(vals, dtype=object).reshape(shape)

    def rand_index(self, U, shape, common=None):
        d = self.rand_dense(U, shape)
        if common is None:
            common = self.rnd.choice(U + [self.absent(U)])
        return canonical(self.iindex, d, common)

    def absent(self, U):
        if isinstance(U[0], str):
            return "zz"
        return max(U) + 1 if max(U) < 2 ** 40 else 11

    def absent2(self, U):
        return "zzz" if isinstance(U[0], str) else self.absent(U) + 1

    def rand_rows(self, n, p=0.5):
        return [r for r in range(n) if self.rnd.random() < p]

    # ---- one chain --------------------------------------------------------------------------------
    def chain(self, steps, big=False, strs=False):
        rnd = self.rnd
        U = rnd.choice(STR_UNIVERSES if strs else BIG_UNIVERSES if big else UNIVERSES)
        big = big or strs
        ndim = rnd.choice([1, 1, 2, 2, 2])
        rows = rnd.choice([0, 1, 2, 3, 4, 5, 7, 9, 13])
        cols = rnd.choice([1, 2, 2, 3, 3, 0])
        shape = (rows,) if ndim == 1 else (rows, cols)
        pool = [self.rand_index(U, shape) for _ in range(2)]
        for _ in range(steps):
            # an operation's result stays in play while the dense array it stands for is well defined - also when the
            # library has left an entry without rows behind (C07's business at that step, but what later operations
            # make of it is part of this history)
            pool = [p for p in pool if wellformed(p, allow_empty=True, allow_unsorted=True) and self._same_kind(p, U)]
            if not pool:
                pool = [self.rand_index(U, shape)]
            idx = rnd.choice(pool)
            op = rnd.choice(self.ops_for(idx, big, strs))
            new = getattr(self, "op_" + op)(idx, U)
            if new is not None:
                pool.append(new)
                if len(pool) > 4:
                    pool.pop(rnd.randrange(len(pool) - 1))

    @staticmethod
    def _same_kind(idx, U):
        """steering only: an index whose values are no longer of the universe's kind (strings turned into integers by a
        faulty operation - that event is judged on its own) cannot be steered any further"""
        want = str if isinstance(U[0], str) else (int, np.integer)
        return isinstance(idx.common, want) and all(isinstance(k[0], want) for k in dict.keys(idx))

    def ops_for(self, idx, big, strs=False):
        nd = len(idx.shape)
        ops = ["shift_common", "shift_common_v", "append", "update", "filtered", "copy", "reindexed_map",
               "column_stack", "set_update", "get", "items", "common_rowids", "abscissae", "eq", "to_array",
               "append", "update", "filtered", "reindexed_map"]
        ops += ["extra", "sliced_noargs", "alias", "indx"]
        if not big:
            ops += ["reindexed_default", "sparsity", "cube_shape"]
        if nd == 2:
            ops += ["sliced", "slices1d", "collapsed", "collapsed", "sliced"]
        if len(self.twin_classes) > 1:
            ops += ["eq"] * 4
        if strs:
            # collapsed sizes its output with fit_dtype(max(precedence)): integers only, by design
            ops = [o for o in ops if o != "collapsed"] + ["sparsity"]
        return ops

    # ---- operations -------------------------------------------------------------------------------
    def op_shift_common(self, idx, U):
        self.rec.shift_common(idx)

    def op_shift_common_v(self, idx, U):
        self.rec.shift_common(idx, self.rnd.choice(U + [self.absent(U)]))

    def op_append(self, idx, U):
        rnd = self.rnd
        m = rnd.choice([0, 0, 1, 2, 3])
        other = self.rand_index(U, (m,) + tuple(idx.shape[1:]))
        if rnd.random() < 0.3:
            other = canonical(self.iindex, dense_of(other), idx.common)
        self.rec.append(idx, other)

    def op_update(self, idx, U):
        rnd = self.rnd
        if len(idx.shape) == 2 and idx.shape[1] == 0:
            return self.rec.update(idx, {})
        n = idx.shape[0]
        hcs = [()] if len(idx.shape) == 1 else [(c,) for c in range(idx.shape[1])]
        cells = {}
        for hc in hcs:
            free = list(range(n))
            rnd.shuffle(free)
            for v in rnd.sample(U + [self.absent(U), idx.common], k=rnd.randint(0, 2)):
                k = rnd.randint(0, min(2, len(free)))
                rows, free = sorted(free[:k]), free[k:]
                if rows and (v,) + hc not in cells:
                    cells[(v,) + hc] = rows
        self.rec.update(idx, cells, as_lists=rnd.random() < 0.3)

    def op_filtered(self, idx, U):
        rnd = self.rnd
        n = idx.shape[0]
        if n and rnd.random() < 0.5:
            # value-correlated mask: drop (most of) the rows holding one value, and a few others, so that the
            # most frequent value of the result differs from the receiver's
            D = dense_of(idx)
            col = D if D.ndim == 1 else D[:, rnd.randrange(D.shape[1])] if D.shape[1] else D[:, :0].sum(axis=1)
            vals = sorted(set(col.tolist()))
            v = rnd.choice(vals) if vals else None
            keep_v, keep_o = rnd.choice([0.0, 0.1, 0.3]), rnd.choice([1.0, 0.8, 0.6])
            mask = [(rnd.random() < keep_v) if col[r] == v else (rnd.random() < keep_o) for r in range(n)]
            return self.rec.filtered(idx, mask)
        p = rnd.choice([0.0, 0.3, 0.6, 1.0])
        return self.rec.filtered(idx, [rnd.random() < p for _ in range(n)])

    def op_copy(self, idx, U):
        return self.rec.copy(idx)

    def _mapping(self, idx, U, unique=False):
        rnd = self.rnd
        present = sorted(set(dense_of(idx).ravel().tolist()) | {idx.common})
        keys = [v for v in sorted(set(U + present + [self.absent(U)])) if rnd.random() < 0.6]
        targets = U + [self.absent(U), self.absent2(U), idx.common]
        if unique:
            # injective on present values and never onto a value that stays
            m = {}
            avail = [("u%d" % i) if isinstance(U[0], str) else 10 ** 6 + i for i in range(len(keys))]
            for k in keys:
                m[k] = avail.pop()
            return m
        return {k: rnd.choice(targets) for k in keys}

    def op_reindexed_map(self, idx, U):
        rnd = self.rnd
        au = rnd.random() < 0.25
        # assume_unique promises that no ROW occurs twice among the entries that get merged - which holds for every
        # well-formed index whatever the mapping (a row holds one value per column): half of these calls merge values
        m = self._mapping(idx, U, unique=au and rnd.random() < 0.5)
        if rnd.random() < 0.1:
            m = {}                         # an explicit mapping that maps nothing is the identity, not "no mapping given"
        return self.rec.reindexed(idx, m, copy=rnd.random() < 0.7, shift=rnd.random() < 0.8, assume_unique=au)

    def op_reindexed_default(self, idx, U):
        if any(v < 0 for v in U):
            return None
        return self.rec.reindexed(idx, None, copy=self.rnd.random() < 0.7)

    def op_collapsed(self, idx, U):
        rnd = self.rnd
        cand = sorted(set(U + [self.absent(U), -1]))
        k = rnd.randint(1, len(cand))
        prec = rnd.sample(cand, k)
        m = None
        if rnd.random() < 0.3:
            m = {v: rnd.choice(cand) for v in cand if rnd.random() < 0.5}
        return self.rec.collapsed(idx, prec, m)

    def op_sliced(self, idx, U):
        rnd = self.rnd
        orders = []
        for ext in idx.shape[1:]:
            t = rnd.choice(["none", "int", "list"])
            if t == "none" or ext == 0:
                orders.append(None)
            elif t == "int":
                orders.append(rnd.randrange(ext))
            else:
                k = rnd.randint(1, ext)
                orders.append(rnd.sample(range(ext), k))
        return self.rec.sliced(idx, orders)

    def op_sliced_noargs(self, idx, U):
        return self.rec.sliced(idx, [])

    def op_slices1d(self, idx, U):
        self.rec.slices1d(idx)

    def op_column_stack(self, idx, U):
        rnd = self.rnd
        n = idx.shape[0]
        parts = []
        for _ in range(rnd.randint(1, 3)):
            if rnd.random() < 0.4:
                parts.append(idx)
            else:
                shp = (n,) if rnd.random() < 0.5 else (n, rnd.choice([1, 2]))
                parts.append(self.rand_index(U, shp))
        nc = None if rnd.random() < 0.5 else rnd.choice(U + [self.absent(U)])
        return self.rec.column_stack_op(parts, new_common=nc, copy=rnd.random() < 0.5)

    def op_set_update(self, idx, U):
        rnd = self.rnd
        if len(idx.shape) == 2 and idx.shape[1] == 0:
            return self.rec.set_update(idx, rnd.choice(["union", "inter", "diff"]), [])
        which = rnd.choice(["union", "inter", "diff"])
        D = dense_of(idx)
        n = idx.shape[0]
        hcs = [()] if len(idx.shape) == 1 else [(c,) for c in range(idx.shape[1])]
        other = []
        used = set()
        if which == "union":
            for hc in hcs:
                col = D[(slice(None),) + hc].tolist()
                commons = [r for r in range(n) if col[r] == idx.common]
                rnd.shuffle(commons)
                for v in rnd.sample([u for u in U + [self.absent(U)] if u != idx.common], k=rnd.randint(0, 2)):
                    k = rnd.randint(0, min(2, len(commons)))
                    rows, commons = commons[:k], commons[k:]
                    rows = sorted(set(rows) | {r for r in range(n) if col[r] == v and rnd.random() < 0.5})
                    if (v,) + hc not in used:
                        used.add((v,) + hc)
                        other.append(((v,) + hc, rows if (rows or rnd.random() < 0.5) else None))
        else:
            keys = list(dict.keys(idx))
            cand = keys + [(rnd.choice(U),) + rnd.choice(hcs) for _ in range(2)]
            for k in cand:
                if k in used or rnd.random() < 0.4:
                    continue
                used.add(k)
                other.append((k, None if rnd.random() < 0.15 else self.rand_rows(n)))
        self.rec.set_update(idx, which, other)

    def op_alias(self, idx, U):
        """operands that alias the receiver, and index objects where a dict of cells is expected: NumPy's answer does not
        depend on who owns the memory (a.append(a) is concatenate([A, A]); assigning a's own cells to a changes nothing;
        A minus A is empty)"""
        rnd = self.rnd
        r = rnd.random()
        other = self.rand_index(U, idx.shape)
        pick = lambda: idx if rnd.random() < 0.5 else other   # noqa: E731
        if r < 0.2:
            self.rec.append(idx, idx)
        elif r < 0.5:
            self.rec.update(idx, None, as_index=pick())
        else:
            src = pick()
            which = rnd.choice(["union", "inter", "diff"])
            if which == "union" and src is not idx:
                # entry-wise union is only a well-formed index if no row ends up under two values of one column
                src = canonical(self.iindex, np.where(dense_of(idx) == idx.common, dense_of(other), idx.common), idx.common) \
                    if idx.shape[0] and all(idx.shape) else idx
            self.rec.set_update(idx, which, [(k, np.asarray(v).tolist()) for k, v in dict.items(src)], from_index=src)

    def merged_then_updated(self):
        """two-step histories aimed at a result whose VALUE is right but whose representation is not what the next
        operation relies on: values with interleaved rows are merged by reindexed (assume_unique or not, copy or not),
        collapsed or from-scratch construction with a many-to-one mapping, and the merged entry is then the target of an
        entry-wise set update, an update, an append, a filter or a second merge"""
        rnd = self.rnd
        U = [0, 1, 2, 3, 4]
        n = rnd.choice([4, 6, 9, 13])
        ndim = rnd.choice([1, 1, 2])
        shape = (n,) if ndim == 1 else (n, rnd.choice([1, 2]))
        d = np.array([rnd.choice([1, 2, 3, 0]) for _ in range(int(np.prod(shape)))], dtype=object).reshape(shape)
        idx = canonical(self.iindex, d, rnd.choice([0, 4]))
        m = {1: 3, 2: 3} if rnd.random() < 0.6 else {1: 2, 3: 2}
        new = self.rec.reindexed(idx, m, copy=rnd.random() < 0.7, shift=rnd.random() < 0.5, assume_unique=rnd.random() < 0.7)
        if new is None or not wellformed(new, allow_empty=True, allow_unsorted=True):
            return
        tgt = m[1]
        hcs = [()] if ndim == 1 else [(c,) for c in range(shape[1])]
        step = rnd.choice(["diff", "inter", "union", "update", "append", "filtered", "again", "indx"])
        if step in ("diff", "inter"):
            self.rec.set_update(new, step, [((tgt,) + hc, self.rand_rows(n)) for hc in hcs if rnd.random() < 0.8])
        elif step == "union":
            D = dense_of(new)
            other = []
            for hc in hcs:
                col = D[(slice(None),) + hc].tolist()
                rows = [r for r in range(n) if col[r] == new.common and rnd.random() < 0.5]
                if tgt != new.common:
                    other.append(((tgt,) + hc, rows))
            self.rec.set_update(new, "union", other)
        elif step == "update":
            self.op_update(new, U)
        elif step == "append":
            self.op_append(new, U)
        elif step == "filtered":
            self.op_filtered(new, U)
        elif step == "again":
            self.rec.reindexed(new, {tgt: 0, 0: tgt}, copy=True, shift=True, assume_unique=rnd.random() < 0.5)
        else:
            self.op_indx(new, U)

    def op_indx(self, idx, U):
        if all(isinstance(k[0], int) and k[0] >= 0 for k in dict.keys(idx)) and isinstance(idx.common, int) and idx.common >= 0:
            return self.rec.indx_roundtrip(idx)       # the file format stores unsigned integers

    def op_get(self, idx, U):
        rnd = self.rnd
        hc = () if len(idx.shape) == 1 else (rnd.randrange(max(1, idx.shape[1])),)
        if len(idx.shape) == 2 and idx.shape[1] == 0:
            return
        self.rec.query(idx, "get", key=(rnd.choice(U + [idx.common]),) + hc)

    def op_items(self, idx, U):
        self.rec.query(idx, "items", via=self.rnd.choice(["items", "to_dict"]))

    def op_common_rowids(self, idx, U):
        if len(idx.shape) == 1:
            self.rec.query(idx, "common_rowids")
        elif idx.shape[1] > 0:
            self.rec.query(idx, "common_rowids", col=self.rnd.randrange(idx.shape[1]))

    def op_abscissae(self, idx, U):
        self.rec.query(idx, "abscissae")

    def op_sparsity(self, idx, U):
        self.rec.query(idx, self.rnd.choice(["sparsity", "size"]))

    def op_cube_shape(self, idx, U):
        if len(idx.shape) == 1 and all(v >= 0 for v in U) and idx.common >= 0:
            self.rec.query(idx, "cube_shape")

    def op_extra(self, idx, U):
        """operations beyond the listed properties (judged under owner X00: notes, never violations)"""
        rnd = self.rnd
        r = rnd.random()
        hc = () if len(idx.shape) == 1 else (rnd.randrange(max(1, idx.shape[1])),)
        if len(idx.shape) == 2 and idx.shape[1] == 0:
            return
        if r < 0.25:
            self.rec.query(idx, "get_noforce", key=(rnd.choice(U + [idx.common]),) + hc)
        elif r < 0.45:
            self.rec.query(idx, "items_noforce")
        elif r < 0.55:
            self.rec.query(idx, "ndim")
        elif r < 0.8:
            others = [idx] + [self.rand_index(U, idx.shape) for _ in range(rnd.randint(0, 2))]
            self.rec.common_common(others)
        else:
            # set_if on a scratch copy (it is a raw mutator and may leave the well-formed domain)
            scratch = canonical(self.iindex, dense_of(idx), idx.common)
            key = (rnd.choice(U),) + hc
            rows = rnd.choice([None, [], self.rand_rows(idx.shape[0])])
            self.rec.set_if(scratch, key, rows, copy=rnd.random() < 0.5)

    def op_eq(self, idx, U):
        rnd = self.rnd
        D = dense_of(idx)
        r = rnd.random()
        cls = rnd.choice(self.twin_classes)
        if r < 0.4:
            twin = canonical(cls, D, idx.common)                 # equal twin, different history
        elif r < 0.6:
            twin = canonical(cls, D, rnd.choice(U + [self.absent(U)]))   # same dense, maybe other common
        elif r < 0.8 and D.size:
            D2 = D.copy()
            D2.flat[rnd.randrange(D2.size)] = rnd.choice(U)
            twin = canonical(cls, D2, idx.common)
        else:
            twin = self.rand_index(U, idx.shape if rnd.random() < 0.7 else (idx.shape[0] + 1,) + tuple(idx.shape[1:]))
        self.rec.eq(idx, twin)

    def op_to_array(self, idx, U):
        rnd = self.rnd
        r = rnd.random()
        if r < 0.4:
            self.rec.to_array(idx)
        elif r < 0.7 and not isinstance(U[0], str):
            self.rec.to_array(idx, dtype=rnd.choice([np.int64, np.int64, np.float64 if False else np.int64]))
        else:
            present = sorted(set(dense_of(idx).ravel().tolist()) | {idx.common})
            targets = U + [self.absent(U)]
            self.rec.to_array(idx, mapping={v: rnd.choice(targets) for v in present})

    # ---- 3-D: slicing and slice iteration only ---------------------------------------------------
    def chain3d(self, steps):
        rnd = self.rnd
        U = rnd.choice(UNIVERSES)
        shape = (rnd.choice([0, 1, 2, 3, 4]), rnd.choice([1, 2, 3]), rnd.choice([1, 2, 3]))
        idx = self.rand_index(U, shape)
        for _ in range(steps):
            if rnd.random() < 0.5:
                self.op_slices1d(idx, U)
            else:
                new = self.op_sliced(idx, U)
                if new is not None and wellformed(new) and len(new.shape) == 3 and rnd.random() < 0.5:
                    idx = new
