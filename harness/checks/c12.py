"""C12: a torn INDX file is always rejected (see c10.py for the legs)."""
from . import c10

OWN = "C12"


def run(chk, tier):
    c10.run_shared(chk, tier, OWN)
    chk.exhaustive = True
    chk.rule = ("for every file written by the real save (C10's cross product): load(F[:k]) for EVERY k in 0..len-1 on a "
                "real file; a cut point that does not raise is a violation; TLC also evaluates the loader's acceptance "
                "logic on every prefix of the real bytes; distinct by data saved (evaluations counts truncated loads)")
    chk.assumptions += ["mmap refuses a length beyond EOF on this filesystem (regular files)"]


replay = c10.replay
