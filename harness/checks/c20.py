"""C20: an interrupt raised at any cancellation point stops the cube cleanly.

L1  MC_CubePool: for every fault set (every single index in serial mode, every subset in pooled mode) and
    every schedule: raise iff a consulted index is a fault, callback consulted at most once per sub-cube and
    exactly once when nothing raises, a second uninterrupted evaluation returns the contract regions.
L3  real ccube/xcube with 3..12 sub-cubes: the callback raises a tagged exception at the chosen
    invocation(s), serially and under the deterministic scheduler; every Check/Fill/End event is replayed
    against the pool model by TLC (Trace_CubePool); then the same cube and function objects are evaluated
    again without interrupt and compared bit for bit with a fresh evaluation (whose cells TLC judges
    against Agg.tla).
"""
import itertools
import random

from .. import core
from ..drivers import pool as pl
from . import c03, c16

OWN = "C20"


def model_check_kinds(chk):
    """the class of what the callback raises: with the cube's task wrapper (the code) every class propagates; the
    bare CPython pool (the environment, and the harness's stand-in of it) hangs on a non-Exception and swallows a
    StopIteration - both reachable in the model, which is what defect F22 was"""
    for cfg in ("MC_CubePool_guarded_kinds.cfg", "MC_CubePool_raw.cfg"):
        res = core.run_tlc("MC_CubePool.tla", cfg, timeout=3000, deadlock=False)
        chk.add_tlc("L1 %s" % cfg, res)
        if res.rc != 0:
            chk.violation("L1:%s:%s" % (cfg, ",".join(res.violated + res.action_violated)), res.out[-1500:], {"leg": "L1", "cfg": cfg})
    for cfg, inv in (("MC_CubePool_raw_hang.cfg", "RawNeverHangs"), ("MC_CubePool_raw_silent.cfg", "RawNeverSilent")):
        res = core.run_tlc("MC_CubePool.tla", cfg, timeout=3000, deadlock=False)
        chk.add_tlc("L1 %s (witness: TLC must find the state)" % cfg, res)
        if res.violated != [inv]:
            raise core.MachineryFailure("the raw-pool model no longer reaches the state %s rules out: %s" % (inv, res.errors[:3]))


def run(chk, tier):
    c16.model_check(chk, tier)
    model_check_kinds(chk)
    env = c16.new_env()
    rnd = random.Random(core.SEED + 5)
    n_cubes = 36 if tier == "quick" else 300
    traces, meta = [], {}
    tid = 0
    for q in range(n_cubes):
        kind = rnd.choice(["ccube", "xcube"])
        names = c16.pick_names(rnd, kind)
        names = [n for n in names if n not in ("covariance", "corrcoef")] or ["sum"]
        case = pl.scaffold_case(env.gen, rnd, names[0])
        if case.fact is None:
            case.fact = env.gen.fact(case.n, K=rnd.choice([1, 2]), small=True)
        if case.weights is not None and case.weights["kind"] == "scalar":
            case.weights = None
        pr = pl.PoolRun(env, kind, case, names, core.SEED + q)
        try:
            fresh = pr.fresh_serial()
        except Exception as e:  # noqa
            # the plain serial evaluation of this cube fails: what it should have returned is the business of the
            # properties about values (C02-C05, C13, C18); there is no reference to compare schedules with
            chk.note("other-property=C03 serial reference evaluation raised %s: %s" % (type(e).__name__, str(e)[:120]))
            continue
        c16.record_outputs(env, OWN, pr, fresh)
        T = pr.T
        plans = [("serial", 0, frozenset([i])) for i in range(1, T + 1)] + [("serial", 0, frozenset())]
        subsets = [frozenset(s) for k in range(0, T + 1) for s in itertools.combinations(range(1, T + 1), k)] if T <= 4 \
            else [frozenset()] + [frozenset([i]) for i in range(1, T + 1)] + \
                 [frozenset(rnd.sample(range(1, T + 1), rnd.randint(2, T))) for _ in range(4)]
        for fs in subsets:
            for P in ([2] if tier == "quick" else [1, 2, 3]):
                plans.append(("pool", P, fs))
        ref = pr
        for mode, P, fs in plans:
            # the class of "that exception" is the caller's business: an ordinary Exception in 40 % of the plans, otherwise
            # one of the classes Python or the library treats specially (StopIteration, GeneratorExit, KeyboardInterrupt,
            # CancelledError, SystemExit, KeyError, ZeroDivisionError, MemoryError, ...)
            hard = False if (not fs or rnd.random() < 0.4) else sorted(pl.KINDS)[tid % len(pl.KINDS)]      # each class in turn
            # half of the plans run on a brand-new cube object whose very first evaluation is the interrupted one
            # (state a cube builds up lazily during its first evaluation must survive an interrupt too)
            pr = ref.twin() if rnd.random() < 0.5 else ref
            pr.callback_style = rnd.choice(["function", "function", "falsy-object", "bool-false-object"])
            pr.callback_place = rnd.choice(["instance", "instance", "instance", "class"])
            tr, outs, funcs = pr.evaluate(mode, P=P or 1, faults=fs, sched_seed=core.SEED * 977 + tid,
                                          switch_prob=rnd.choice([0.02, 0.2]), hard=hard)
            tid += 1
            tr.update(tid=tid, prop=OWN)
            if tr["outcome"] == "returned":
                tr["sameasserial"] = outs is not None and pl.same_bits(outs, fresh)
            # the same cube and the same function objects again, uninterrupted
            tr2, outs2, _ = pr.evaluate(mode, P=P or 1, faults=(), sched_seed=tid, funcs=funcs, switch_prob=0.05)
            tr["secondok"] = tr2["outcome"] == "returned" and outs2 is not None and pl.same_bits(outs2, fresh)
            traces.append(tr)
            meta[tid] = {"cube": kind, "aggregates": names, "mode": mode, "P": P, "tasks": T, "faults": sorted(fs), "hard_interrupt": hard, "fresh_cube_object": pr is not ref, "callback": pr.callback_style, "callback_installed_on": pr.callback_place,
                         "case": case.describe(), "exc": getattr(pr, "last_exc", None)}
    c16.judge_pool(chk, traces, meta, OWN)
    c03.judge(chk, env.rec, OWN)
    chk.rule = ("cubes with 3..12 sub-cubes; serial: every single invocation index and none; pooled: every subset of indices "
                "(<= 4 sub-cubes) or singles plus random subsets, pool sizes 1..3, seeded bytecode schedules; each followed by an "
                "uninterrupted re-evaluation of the same objects; distinct by (cube, aggregates, mode, pool size, fault set, schedule)")
    chk.assumptions += ["the scheduler serialises threads at bytecode granularity (GIL-atomic NumPy calls)",
                        "stand-in pool copies CPython 3.12 Pool.map chunking and first-recorded-failure semantics"]


replay = c16.replay
