"""C10 / C11 / C12: INDX save-load identity, byte layout, torn files.

L1  MC_Indx: Decode(Encode(x, iws, rws)) = x for all admissible word sizes; size field = payload
    length; every proper prefix of every file is rejected by the loader's acceptance logic.
L2  Gen_Indx: files laid out by the specification (all admissible word sizes, incl. ones the saver
    never picks and 1/2/8-byte row-id words) are loaded by the real IndxIO.load.
L3  real save -> bytes == Encode(x, SaverIws(x), 4); Decode(bytes) == x; real load == x; every
    truncation of every written file must make the real load raise; size field at >= 2^30 rows.
"""
import json
import shutil

from .. import build, core
from ..drivers import indx

OWN = "C10"


def run_shared(chk, tier, own):
    build.load_catii("plain")
    from catii.indxio import IndxIO

    cfgs = ["MC_Indx_quick.cfg"] if tier == "quick" else ["MC_Indx.cfg", "MC_Indx_two.cfg"]
    for cfg in cfgs:
        res = core.run_tlc("MC_Indx.tla", cfg, timeout=3000)
        chk.add_tlc("L1 %s" % cfg, res)
        if res.rc != 0:
            chk.violation("L1:" + ",".join(res.violated), res.out[-1500:], {"leg": "L1", "cfg": cfg})

    wd = core.workdir("indx")
    events, meta = [], {}
    try:
        tid = 0
        # L3: real save / load / cuts
        if own in ("C10", "C11", "C12"):
            for arity, common, ents in indx.gen_file_cases(tier, core.SEED):
                tid += 1
                ev = indx.file_event(IndxIO, tid, arity, common, ents, str(wd), cuts=(own == "C12" or tid % 7 == 0))
                events.append(ev)
                meta[tid] = {"kind": "file", "arity": arity, "common": common, "ents": ents}
        if own in ("C10", "C11"):
            # the writer with 1-, 2- and 8-byte row-id words (its dtype argument), for the files whose row ids fit one byte
            import numpy as np
            small = [c for c in indx.gen_file_cases(tier, core.SEED + 6) if all(v < 256 for _k, r in c[2] for v in r)][:: 4][: (120 if tier == "quick" else 1500)]
            for arity, common, ents in small:
                for rdt in (np.uint8, np.uint16, np.uint64):
                    tid += 1
                    events.append(indx.file_event(IndxIO, tid, arity, common, ents, str(wd), cuts=False, rowdtype=rdt))
                    meta[tid] = {"kind": "file", "arity": arity, "common": common, "ents": ents, "rowid_word_size": int(np.dtype(rdt).itemsize)}
            # ... and the boundary of the length word itself: 255 row ids under one-byte words have a file, 256 (every id the
            # word can express) have none - the writer must refuse rather than write a count that wrapped
            for arity, first, rows in ((1, (7,), list(range(255))), (1, (7,), list(range(1, 256))), (1, (7,), list(range(256))),
                                       (2, (7, 0), list(range(256))), (1, (300,), list(range(0, 254)))):
                for others in ([], [((9,) * arity, [1, 2])], [((2,) * arity, [3]), ((9,) * arity, [])]):
                    ents = [(first, rows)] + others if tid % 2 else others + [(first, rows)]
                    tid += 1
                    events.append(indx.file_event(IndxIO, tid, arity, 0, ents, str(wd), cuts=False, rowdtype=np.uint8))
                    meta[tid] = {"kind": "file", "arity": arity, "common": 0, "ents": "(%d row ids under 1-byte words)" % len(rows), "rowid_word_size": 1}
        if own in ("C10", "C11", "C12"):
            # the same writer used from several threads at once: every file is still the layout of its own data (and its
            # size field that of its own payload - a smaller one would let torn prefixes pass)
            ccases = [c for c in indx.gen_file_cases(tier, core.SEED + 4) if len(c[2]) >= 1][:: 3][: (400 if tier == "quick" else 4000)] * (6 if tier == "quick" else 3)
            for ev, (arity, common, ents) in zip(indx.concurrent_file_events(IndxIO, ccases, str(wd), tid), ccases):
                tid = ev["tid"]
                events.append(ev)
                meta[tid] = {"kind": "file", "arity": arity, "common": common, "ents": ents, "saved_concurrently_by_4_threads": True}
        # C12: crash points of the REAL writer at system-call granularity: the save runs under strace, its writes are
        # replayed, and the loader must reject the disk content after every system call and at every byte of every write
        if own == "C12":
            sys_cases = [c for c in indx.gen_file_cases(tier, core.SEED + 3) if len(c[2]) <= 3][:: 9][: (10 if tier == "quick" else 120)]
            nstates = 0
            for arity, common, ents in sys_cases:
                try:
                    final, states = indx.syscall_disk_states(arity, common, ents, str(wd), str(core.VERIF))
                except RuntimeError as e:
                    # a save that fails is judged by C10/C11, not here
                    chk.note("other-property=C10 traced save did not complete: %s" % str(e)[:160])
                    continue
                tid += 1
                ev = indx.file_event(IndxIO, tid, arity, common, ents, str(wd), cuts=False)
                seen = set()
                accepted = []
                for k, (label, data) in enumerate(states):
                    if data == final or data in seen:
                        continue
                    seen.add(data)
                    nstates += 1
                    try:
                        indx.load_bytes(IndxIO, data, str(wd / "crash.indx"))
                        accepted.append(k)
                        ev.setdefault("accepted_labels", []).append(label)
                    except Exception:
                        pass
                ev["accepted"] = accepted
                ev.pop("accepted_labels", None) if not accepted else None
                events.append(ev)
                meta[tid] = {"kind": "file", "syscall_crash_points": len(seen), "arity": arity, "common": common, "ents": ents,
                             "accepted_states": ev.get("accepted_labels", [])}
            chk.extra["syscall_level_disk_states_loaded"] = nstates
            chk.extra["files_traced_with_strace"] = len(sys_cases)
        # L3 with real indexes (loaded parts rebuild an equal, valid index)
        if own == "C10":
            from ..drivers import idxgen
            for idx in idxgen.sample_indexes(tier, core.SEED):
                tid += 1
                ents = [(k, v.tolist()) for k, v in idx.items()]
                ev = indx.file_event(IndxIO, tid, len(idx.shape), idx.common, ents, str(wd), index=idx, cuts=False)
                events.append(ev)
                meta[tid] = {"kind": "file", "from_index": repr(idx)[:200], "arity": len(idx.shape),
                             "common": idx.common, "ents": ents}
        # L2: spec-generated files for the real loader
        if own == "C11":
            gres = core.run_tlc("MC_Indx.tla", "Gen_Indx.cfg", workers=1, timeout=1200)
            chk.add_tlc("L2 generator Gen_Indx", gres)
            cases = gres.json_cases("CASE")
            if len(cases) < 100:
                raise core.MachineryFailure("generator produced %d cases" % len(cases))
            if tier == "quick":
                cases = cases[::3]
            for c in cases:
                for data in [c["bytes"]] + ([c["alt"]] if c["alt"] else []):
                    tid += 1
                    events.append(indx.read_event(IndxIO, tid, c, data, str(wd)))
                    meta[tid] = {"kind": "read", "x": c["x"], "iws": c["iws"], "rws": c["rws"], "bytes": data}
            # files whose 1/2-byte row-id words cannot count the *total* number of row ids (Gen_IndxLong)
            lres = core.run_tlc("Gen_IndxLong.tla", "Gen_IndxLong.cfg" if tier == "quick" else "Gen_IndxLong_big.cfg",
                                workers=1, timeout=1200, xss="512m")
            chk.add_tlc("L2 generator Gen_IndxLong", lres)
            if lres.rc != 0:
                chk.violation("L1:Gen_IndxLong:" + ",".join(lres.violated), lres.out[-800:], {"leg": "L2"})
            seen = set()
            for c in lres.json_cases("CASE"):
                key = (json.dumps(c["x"])[:200], c["iws"], c["rws"], len(c["bytes"]))
                if key in seen:
                    continue
                seen.add(key)
                tid += 1
                events.append(indx.read_event(IndxIO, tid, c, c["bytes"], str(wd)))
                meta[tid] = {"kind": "read", "long": True, "rows_per_entry": [len(e["r"]) for e in c["x"]["ents"]],
                             "iws": c["iws"], "rws": c["rws"], "bytes": c["bytes"] if len(c["bytes"]) < 2000 else "(%d bytes)" % len(c["bytes"])}
            if len(seen) < 4:
                raise core.MachineryFailure("Gen_IndxLong produced %d cases" % len(seen))
            chk.extra["spec_generated_files_loaded"] = tid
        if own == "C10":
            # entry counts on both sides of every power of two up to 2^16 (2^17 thorough), and of every constant the
            # current indxio source mentions (a block size is a boundary)
            sizes = {c + d for c in [1 << 8, 1 << 12, 1 << 16] + ([1 << 15, 1 << 17] if tier == "thorough" else []) for d in (-1, 0, 1)}
            harvested = indx.harvest_sizes(IndxIO)
            sizes |= {c * m + d for c in harvested for m in (1, 2) for d in (-1, 0, 1) if c * m <= (1 << 18)}
            chk.extra["entry_count_constants_harvested_from_source"] = harvested
            for n in sorted(sizes):
                tid += 1
                events.append(indx.many_event(IndxIO, tid, n, str(wd), core.SEED))
                meta[tid] = {"kind": "many", "entries": n}
        if own in ("C11", "C12"):
            for cl, common, counts in indx.gen_size_cases(tier):
                tid += 1
                events.append(indx.size_event(IndxIO, tid, cl, common, counts, str(wd)))
                meta[tid] = {"kind": "size", "coords": cl, "common": common, "rowcounts": counts}
    finally:
        shutil.rmtree(wd, ignore_errors=True)
    consume(chk, events, meta, own)


def consume(chk, events, meta, own):
    B = 1500
    cuts = 0
    for k in range(0, len(events), B):
        res, verdicts = core.validate_batch("Trace_Indx.tla", "Trace_Indx.cfg", events[k:k + B], timeout=3000, xss="512m")
        chk.add_tlc("L3 trace validation", res)
        for ev in events[k:k + B]:
            m = meta[ev["tid"]]
            chk.traces += 1
            if ev["kind"] == "file":
                cuts += len(ev["bytes"])
            chk.nontrivial.add(json.dumps(m, sort_keys=True, default=str))
            for v in verdicts[ev["tid"]]:
                if v == "ok":
                    continue
                owner = v.split(":")[0]
                if owner == own:
                    sig = "%s:%s:%s" % (ev["kind"], v, klass(m))
                    chk.violation(sig, "%s -> %s %s" % (json.dumps(m, default=str)[:400], v, ev.get("excmsg", "")),
                                  {"meta": m, "clause": v})
                else:
                    chk.note("other-property=%s clause=%s case=%s" % (owner, v, json.dumps(m, default=str)[:100]))
    chk.evaluations += len(events) + cuts
    chk.extra["truncated_loads_executed"] = cuts
    for ev in events[:: max(1, len(events) // 4)][:4]:
        chk.sample(meta[ev["tid"]])


def klass(m):
    if m["kind"] == "many":
        return "entries=%d" % m["entries"]
    if m["kind"] == "size":
        return "rows>=2^30" if sum(m["rowcounts"]) >= 2 ** 30 else "rows<2^30"
    if m["kind"] == "read":
        return "iws%d-rws%d" % (m["iws"], m["rws"])
    return "n%d" % min(len(m["ents"]), 2)


def run(chk, tier):
    run_shared(chk, tier, OWN)
    chk.rule = ("cross product of arity 1..4 x coordinate word-size class x common word-size class x row-array shape, "
                "multi-entry random dicts, plus every index of the shared index generator; distinct by data saved")
    chk.assumptions += ["files on the real filesystem under /verif/.work", "Big.tla byte arithmetic"]


def replay(chk, path):
    build.load_catii("plain")
    from catii.indxio import IndxIO
    r = json.load(open(path))["replay"]["meta"]
    wd = core.workdir("indx")
    try:
        if r["kind"] == "file":
            ev = indx.file_event(IndxIO, 1, r["arity"], r["common"], [(tuple(c), rr) for c, rr in r["ents"]], str(wd))
        elif r["kind"] == "read":
            ev = indx.read_event(IndxIO, 1, r, r["bytes"], str(wd))
        elif r["kind"] == "many":
            ev = indx.many_event(IndxIO, 1, r["entries"], str(wd), core.SEED)
        else:
            ev = indx.size_event(IndxIO, 1, [tuple(c) for c in r["coords"]], r["common"], r["rowcounts"], str(wd))
    finally:
        shutil.rmtree(wd, ignore_errors=True)
    consume(chk, [ev], {1: r}, chk.pid)
