"""Cube properties C02, C03, C04, C05, C13, C14, C18 share this module: each check generates its own
problem instances, evaluates them on the real ccube / xcube and has TLC judge every returned cell
against the direct per-cell contract of Agg.tla (Trace_Cube.tla)."""
import itertools
import json
import random
from fractions import Fraction

import numpy as np

from .. import build, core
from ..drivers import cubes as cb
from ..drivers.index import canonical, digest

OWN = "C03"


class Env:
    def __init__(self, seed):
        build.load_catii("plain")
        from catii.iindexes import iindex
        from catii.ccubes import ccube
        from catii.xcubes import xcube
        self.iindex, self.ccube, self.xcube = iindex, ccube, xcube
        self.rnd = random.Random(seed)
        self.gen = cb.Gen(seed + 17)
        self.rec = cb.CubeRecorder()

    def index_dims(self, case, commons=None, how="any"):
        rnd = self.rnd
        out = []
        for d, dense in enumerate(case.dims):
            ext = case.ishape[d] if case.ishape is not None else int(dense.max()) + 1 if dense.size else 1
            if commons is not None and commons[d] is not None:
                c = commons[d]
            else:
                ch = cb.common_choices(rnd, dense, ext)
                if case.ishape is not None:
                    ch = [x for x in ch if x < ext] or [0]   # an explicit shape must contain the common category
                c = rnd.choice(ch)
            out.append(canonical(self.iindex, dense, c))
        return out

    def run_ccube(self, prop, case, commons=None, explicit=True, idims=None, note=None):
        idims = idims if idims is not None else self.index_dims(case, commons)
        exc = res = None
        held = []
        before = digest([[dict(i), i.common, i.shape] for i in idims])
        try:
            cube = self.ccube(idims, interacting_shape=tuple(case.ishape) if explicit and case.ishape is not None else None)
            ishape = tuple(int(x) for x in cube.interacting_shape)
            res = cb.call_cube(cube, case, self.rnd, held)
        except Exception as e:  # noqa
            exc = "%s: %s" % (type(e).__name__, str(e)[:200])
            ishape = tuple(case.ishape) if case.ishape is not None else tuple(1 for _ in case.dims)
        same = before == digest([[dict(i), i.common, i.shape] for i in idims]) and (len(held) < 3 or held[2] == digest(held[:2]))
        self.rec.record(prop, case, res, exc, ishape, "ccube", memsame=same,
                        note={"commons": [i.common for i in idims], "explicit_shape": explicit, "note": note},
                        total=cb.total_of(case))
        return res

    def run_xcube(self, prop, case, explicit=True, dtype=None, note=None):
        rnd = self.rnd
        dtype = dtype or rnd.choice([np.int64, np.int64, np.uint8, np.int32, np.uint16])
        # the dimension arrays handed to the array cube must hold the data: never narrow below the largest category id
        if any(d.size and (int(d.max()) > np.iinfo(dtype).max or int(d.min()) < np.iinfo(dtype).min) for d in case.dims):
            dtype = np.int64
        arrs = [d.astype(dtype) for d in case.dims]
        exc = res = None
        held = []
        before = digest(arrs)
        try:
            cube = self.xcube(arrs, interacting_shape=tuple(case.ishape) if explicit and case.ishape is not None else None)
            ishape = tuple(int(x) for x in cube.interacting_shape)
            res = cb.call_cube(cube, case, rnd, held)
        except Exception as e:  # noqa
            exc = "%s: %s" % (type(e).__name__, str(e)[:200])
            ishape = tuple(case.ishape) if case.ishape is not None else tuple(1 for _ in case.dims)
        same = before == digest(arrs) and (len(held) < 3 or held[2] == digest(held[:2]))
        self.rec.record(prop, case, res, exc, ishape, "xcube", memsame=same,
                        note={"dtype": np.dtype(dtype).name, "explicit_shape": explicit, "note": note},
                        total=cb.total_of(case))
        return res


# ---- per-property instance generators ----------------------------------------------------------------
def gen_c02(env, tier):
    rnd, gen = env.rnd, env.gen
    n_cases = 2500 if tier == "quick" else 30000
    for _ in range(n_cases):
        nd = rnd.choice([0, 1, 1, 2, 2, 3, 3, 4])
        case = gen.shared_case("count", nd=nd, maxrows=12)
        case.weights = None
        case.fmt = rnd.choice([("nan",), ("tuple", 0), ("tuple", -1), ("plain", 0)])
        if nd == 0:
            case.N = rnd.choice([0, 1, 5])
        explicit = rnd.random() < 0.6
        if not explicit:
            case.ishape = None
        env.run_ccube("C02", case, explicit=explicit)
    # 2- and 3-axis dimensions
    for _ in range(n_cases // 5):
        nd = rnd.choice([1, 2, 2, 3])
        extra = [rnd.choice([(), (), (2,), (3,), (2, 2), (1, 3)]) for _ in range(nd)]
        case = gen.shared_case("count", nd=nd, maxrows=6, extra=extra)
        case.weights = None
        case.fmt = rnd.choice([("nan",), ("tuple", 0)])
        env.run_ccube("C02", case)
    # extents at the 255/256 and 65535/65536 boundaries (sparse cell report)
    for ext in ([255, 256, 257, 65535, 65536] if tier == "thorough" else [255, 256, 65536]):
        for _ in range(2 if tier == "quick" else 6):
            n = rnd.choice([3, 9])
            d1 = np.array([rnd.choice([0, 1, ext - 2, ext - 1]) for _ in range(n)], dtype=np.int64)
            d2 = np.array([rnd.randrange(2) for _ in range(n)], dtype=np.int64)
            case = cb.Case([d1, d2], (ext, 2), None, None, False, ("nan",), "count")
            env.run_ccube("C02", case, commons=[rnd.choice([0, ext - 1, 5]), None])


def gen_c03(env, tier, prop="C03", funcs=None):
    rnd, gen = env.rnd, env.gen
    n_cases = (3000 if prop == "C03" else 400) if tier == "quick" else 40000
    for q in range(n_cases):
        case = gen.shared_case(rnd.choice(funcs or cb.SHARED), maxrows=10)
        if not case.dims and case.func == "count" and (case.weights is None or case.weights["kind"] == "scalar"):
            case.N = rnd.choice([1, 4])
        explicit = rnd.random() < 0.7
        which = rnd.random()
        if not explicit:
            # inferred shapes differ between the cube types: each is judged on the shape it infers
            case.ishape = None
        if which < 0.45 or which >= 0.7:
            env.run_ccube(prop, case, explicit=explicit)
        if which >= 0.45:
            if not explicit and any(d.size == 0 for d in case.dims):
                continue          # max() of no data: the array cube cannot infer a shape (not a property violation)
            dtype = None
            if rnd.random() < 0.3 and case.dims:
                dtype = "from_index"
            if dtype == "from_index":
                # feed the array cube the index's own to_array() output (unsigned dtypes)
                idims = env.index_dims(case)
                arrs = [i.to_array() for i in idims]
                c2 = cb.Case(arrs, case.ishape, case.fact, case.weights, case.ignore, case.fmt, case.func, case.p, case.N)
                c2.share_args_with(case)
                env.run_xcube(prop, c2, explicit=explicit, dtype=arrs[0].dtype, note="dims=to_array() of the index")
            else:
                env.run_xcube(prop, case, explicit=explicit)


def gen_wide(env, tier, prop):
    """extents around the 255/256 and 65535/65536 boundaries of the array cube's coordinate dtype, in either
    dimension position, on both cubes (sparse cell report)"""
    rnd, gen = env.rnd, env.gen
    # 129..255 and 32769..65535: extents whose coordinates fit the narrow dtype but whose doubles / sums do not
    exts = [129, 200, 255, 256, 257, 300, 32769, 65535, 65536, 65537] if tier == "thorough" else [129, 200, 255, 256, 257, 300, 40000, 65536, 65537]
    for ext in exts:
        for order in (0, 1):
            for rep in range(1 if tier == "quick" else 4):
                n = rnd.choice([4, 9])
                wide = np.array([rnd.choice([0, 1, 255, 256, ext - 2, ext - 1]) % ext for _ in range(n)], dtype=np.int64)
                small_ext = rnd.choice([1, 2, 3])
                small = np.array([rnd.randrange(small_ext) for _ in range(n)], dtype=np.int64)
                dims = [wide, small] if order == 0 else [small, wide]
                ishape = (ext, small_ext) if order == 0 else (small_ext, ext)
                func = rnd.choice(cb.SHARED)
                fact = None if func == "count" else gen.fact(n, K=1)
                case = cb.Case(dims, ishape, fact, gen.weights(n), rnd.random() < 0.5, rnd.choice([("nan",), ("tuple", 0)]), func)
                env.run_xcube(prop, case, dtype=rnd.choice([np.int64, np.uint16, np.int32]))
                env.run_ccube(prop, case)
    # inferred shape when a dimension array holds the largest value of its own dtype (uint8 255, uint16 65535, int8 127)
    for dt, top in ((np.uint8, 255), (np.uint16, 65535), (np.int8, 127), (np.uint8, 254)):
        n = 5
        d1 = np.array([top, 0, 1, top, 2], dtype=np.int64)
        d2 = np.array([rnd.randrange(2) for _ in range(n)], dtype=np.int64)
        for dims in ([d1], [d1, d2], [d2, d1]):
            case = cb.Case(dims, None, None, None, False, ("nan",), "count")
            env.run_xcube(prop, case, explicit=False, dtype=dt, note="inferred shape, dtype maximum present")
    # a single wide dimension, rows in the lower and in the upper half of the extent, every shared aggregate
    for ext in exts:
        for func in cb.SHARED:
            n = 7
            wide = np.array([rnd.choice([0, 1, ext // 2 - 1, ext // 2, ext // 2 + 1, ext - 2, ext - 1]) % ext for _ in range(n)], dtype=np.int64)
            fact = None if func == "count" else gen.fact(n, K=rnd.choice([1, 1, 2]))
            ignore = rnd.random() < 0.5
            fmt = rnd.choice([("nan",), ("tuple", 0)])      # (the sparse cell report cannot tell a plain replacement from a value)
            case = cb.Case([wide], (ext,), fact, gen.weights(n), ignore, fmt, func)
            env.run_xcube(prop, case, dtype=rnd.choice([np.int64, np.int64, np.uint16]))
            env.run_ccube(prop, case)


def gen_c04(env, tier):
    rnd, gen = env.rnd, env.gen
    n_cases = 1000 if tier == "quick" else 14000
    for _ in range(n_cases):
        case = gen.shared_case(maxrows=8)
        # bias towards missing rows (fact and weight) and zero weights
        if case.fact is not None and rnd.random() < 0.5:
            for r in case.fact["valid"]:
                for k in range(len(r)):
                    if rnd.random() < 0.3:
                        r[k] = False
        if case.weights is not None and case.weights["kind"] == "array" and case.func in ("mean", "sum") and rnd.random() < 0.25:
            # signed weights (adjustments, differences of two weightings): a cell whose valid weights cancel has no mean,
            # whatever its weighted sum is
            case.weights["w"] = [Fraction(rnd.choice([-1, 1, 1, Fraction(-1, 2), Fraction(1, 2), 2, -2])) for _ in case.weights["w"]]
        if not case.dims and case.func == "count" and (case.weights is None or case.weights["kind"] == "scalar"):
            case.N = 3
        commons = None
        for fmt in (("nan",), ("tuple", rnd.choice([0, -1, 7.5, 1, 2])), ("plain", 0)):
            if fmt[0] == "plain" and case.func == "valid_count" and not case.ignore:
                continue
            c2 = cb.Case(case.dims, case.ishape, case.fact, case.weights, case.ignore, fmt, case.func, case.p, case.N)
            if case.fact is not None:
                case.fact_arg(rnd)
            case.weights_arg(rnd)
            c2.share_args_with(case)        # the three formats and both cubes are computed from the same argument objects
            if commons is None:
                idims = env.index_dims(c2)
                commons = [i.common for i in idims]
            env.run_ccube("C04", c2, commons=commons)
            env.run_xcube("C04", c2)


def gen_c05(env, tier):
    rnd, gen = env.rnd, env.gen
    n_cases = 220 if tier == "quick" else 3500
    n_resid = 70 if tier == "quick" else 1200
    n_axes = 60 if tier == "quick" else 1000
    for q in range(n_cases + n_resid + n_axes):
        nd = rnd.choice([1, 2, 2, 3])
        case = gen.shared_case(nd=nd, maxrows=8)
        if q >= n_cases + n_resid:
            # dimensions with columns (rows x 2 or rows x 3 cells): "rows" and "cells" are different numbers there, and
            # the stored row ids of a re-expressed dimension can total exactly the row count without any row being common
            nd = rnd.choice([1, 2])
            extra = [rnd.choice([(2,), (2,), (3,)]) if d == 0 or rnd.random() < 0.3 else () for d in range(nd)]
            case = gen.shared_case(nd=nd, maxrows=8, extra=extra, pad=False)
        elif q >= n_cases:
            # rounding residue: a cell on a common category is a margin minus the other cells; with weights that are not
            # binary fractions that difference is 1e-16 rather than 0 for a cell without rows. Which cells are missing
            # must not depend on that, i.e. on which category happens to be stored as common.
            case = gen.shared_case(rnd.choice(["mean", "mean", "sum", "valid_count"]), nd=rnd.choice([2, 2, 3]), maxrows=8)
            case.weights = gen.weights(case.n, nondyadic=True)
            if case.func == "mean":
                case.weights["scale"] = rnd.choice([1, Fraction(1000, 3), Fraction(50000, 7), Fraction(10 ** 6, 13)])
            case.fmt = rnd.choice([("tuple", 0), ("tuple", -1), ("plain", 0), ("nan",)])
            if case.func == "valid_count" and case.fmt[0] == "plain":
                case.ignore = True
            nd = len(case.dims)
        base = env.index_dims(case)
        for d in range(nd):
            ext = case.ishape[d]
            for v in list(range(ext)) + [ext + 1]:
                if v >= ext:
                    continue  # with an explicit shape the common category must be a cell of the cube
                dims2 = [i.copy() for i in base]
                dims2[d].shift_common(v)
                env.run_ccube("C05", case, idims=dims2, note="dim %d shifted to common %d" % (d, v))
                dims3 = [i.copy() for i in dims2]
                dims3[d].shift_common()
                env.run_ccube("C05", case, idims=dims3, note="dim %d shifted to %d then re-normalised" % (d, v))
        # inferred shape: commons outside the data enlarge the cube; every cell is still judged by the contract
        c2 = cb.Case(case.dims, None, case.fact, case.weights, case.ignore, case.fmt, case.func, case.p, case.N)
        for d in range(nd):
            ext = case.ishape[d]
            for v in (0, ext, ext + 1):
                dims2 = [i.copy() for i in base]
                dims2[d].shift_common(v)
                env.run_ccube("C05", c2, idims=dims2, explicit=False, note="inferred shape, dim %d common %d" % (d, v))


def gen_live(env, tier, prop, with_axes=False):
    """one cube OBJECT used repeatedly while its dimensions are re-expressed in place (shift_common on the very index
    objects the cube holds) or grow (append): results depend on the data only, never on what the cube was built with"""
    rnd, gen = env.rnd, env.gen
    for _ in range(40 if tier == "quick" else 800):
        nd = rnd.choice([1, 2, 2, 3])
        extra = [rnd.choice([(), (2,), (3,)]) for _ in range(nd)] if with_axes else None
        if with_axes and not any(extra):
            extra[0] = (2,)
        case = gen.shared_case(rnd.choice(["count", "count", "sum", "mean"]), nd=nd, maxrows=6 if with_axes else 8, pad=False,
                               extra=extra)
        case.ishape = tuple(e + 1 for e in case.ishape)        # room for an absent common value and appended categories
        idims = env.index_dims(case)
        cube = env.ccube(idims, interacting_shape=tuple(case.ishape))

        def evaluate(note):
            exc = res = None
            try:
                res = cb.call_cube(cube, case, rnd)
            except Exception as e:  # noqa
                exc = "%s: %s" % (type(e).__name__, str(e)[:200])
            env.rec.record(prop, case, res, exc, tuple(case.ishape), "ccube",
                           note={"commons": [i.common for i in idims], "explicit_shape": True, "note": note, "live_cube": True},
                           total=cb.total_of(case))
        evaluate("first evaluation")
        for step in range(3):
            d = rnd.randrange(nd)
            v = rnd.randrange(case.ishape[d])
            idims[d].shift_common(v)
            evaluate("same cube object after dims[%d].shift_common(%d) in place" % (d, v))
        if case.func == "count" and case.weights is None and not with_axes:
            # the same cube object after every dimension has grown by the same rows
            extra_rows = rnd.choice([1, 2, 3])
            newdims = []
            for d in range(nd):
                add = np.array([rnd.randrange(case.ishape[d] - 1) for _ in range(extra_rows)], dtype=np.int64)
                idims[d].append(canonical(env.iindex, add, rnd.randrange(case.ishape[d])))
                newdims.append(np.concatenate([case.dims[d], add]))
            case = cb.Case(newdims, case.ishape, None, None, case.ignore, case.fmt, "count")
            evaluate("same cube object after append() on every dimension")


def gen_live_x(env, tier, prop):
    """the array cube's counterpart of gen_live: the cube holds the caller's arrays (numpy.asarray makes no copy), and one
    cube OBJECT is evaluated again after the caller has rewritten cells of a dimension array in place: every evaluation is
    a function of what the arrays hold when it runs"""
    rnd, gen = env.rnd, env.gen
    for _ in range(40 if tier == "quick" else 800):
        nd = rnd.choice([1, 2, 2, 3])
        extra = [rnd.choice([(), (2,), (3,), (2, 2)]) for _ in range(nd)]
        if not any(extra) and rnd.random() < 0.7:
            extra[rnd.randrange(nd)] = (2,)
        case = gen.shared_case(rnd.choice(["count", "sum", "mean", "valid_count"]), nd=nd, maxrows=6, pad=False, extra=extra)
        if not len(case.dims[0]):
            continue
        arrs = [np.array(d, dtype=np.int64) for d in case.dims]
        cube = env.xcube(arrs, interacting_shape=tuple(case.ishape))
        for step in range(3):
            exc = res = None
            cur = cb.Case([a.copy() for a in arrs], case.ishape, case.fact, case.weights, case.ignore, case.fmt, case.func)
            cur.share_args_with(case)
            try:
                res = cb.call_cube(cube, cur, rnd)
                case.share_args_with(cur)
            except Exception as e:  # noqa
                exc = "%s: %s" % (type(e).__name__, str(e)[:200])
            env.rec.record(prop, cur, res, exc, tuple(case.ishape), "xcube",
                           note={"dtype": "int64", "explicit_shape": True, "live_cube": True,
                                 "note": "first evaluation" if not step else "same cube object after cells of a dimension array were rewritten in place"},
                           total=cb.total_of(cur))
            d = rnd.randrange(nd)
            for _k in range(rnd.randint(1, 3)):
                cell = tuple(rnd.randrange(e) for e in arrs[d].shape)
                arrs[d][cell] = rnd.randrange(case.ishape[d])


def gen_c13(env, tier):
    rnd, gen = env.rnd, env.gen
    n_cases = 900 if tier == "quick" else 10000
    shapes = [(2,), (3,), (1,), (4,), (2, 3), (3, 2), (1, 4), (2, 1)]
    for _ in range(n_cases):
        nd = rnd.choice([1, 2, 2, 3])
        extra = [rnd.choice(shapes) if rnd.random() < 0.6 else () for _ in range(nd)]
        if not any(extra):
            extra[rnd.randrange(nd)] = rnd.choice(shapes)
        func = rnd.choice(cb.SHARED + (["stddev", "min", "quantile"] if rnd.random() < 0.3 else []))
        if func in cb.SHARED:
            case = gen.shared_case(func, nd=nd, maxrows=6, extra=extra)
            if rnd.random() < 0.5:
                env.run_ccube("C13", case)
            else:
                env.run_xcube("C13", case)
        else:
            case = stat_case(env, func, nd=nd, extra=extra, maxrows=6)
            env.run_xcube("C13", case)


def stat_case(env, func, nd=None, extra=None, maxrows=8):
    rnd, gen = env.rnd, env.gen
    nd = rnd.choice([0, 1, 1, 2]) if nd is None else nd
    n = rnd.choice([0, 1, 2, 3, 4, 6, maxrows])
    extents = [rnd.choice([1, 2, 3]) for _ in range(nd)]
    dims = gen.dims(nd, n, extents, extra)
    ishape = tuple(extents)
    K = rnd.choice([2, 3]) if func in ("covariance", "corrcoef") else (1 if func in ("min", "max") else rnd.choice([1, 1, 2]))
    fact = gen.fact(n, K=K, small=True, allow_int=func in ("min", "max"))
    if func in ("min", "max") and rnd.random() < 0.35:
        # datetime facts (days since the epoch), NaT-marked or with a validity array
        fact["dtype"] = "datetime"
        fact["vals"] = [[Fraction(rnd.randint(0, 40))] for _ in range(n)]
        fact["form"] = rnd.choice(["nan", "tuple"])
    if func in ("covariance", "corrcoef"):
        fact["oned"] = False
    if func in ("min", "max"):
        fact["oned"] = True
    if func == "stddev" and fact["dtype"] == "float" and rnd.random() < 0.3:
        # measurements far from zero (timestamps, ids, money in cents): the spread is tiny next to the mean, which is
        # where a variance computed as E[x^2] - E[x]^2 loses every digit while the two-pass definition does not
        fact["offset"] = rnd.choice([10 ** 6, 2 ** 30, 1700000000, 2 ** 40, -3 * 10 ** 9])
    w = None
    if func in ("stddev", "covariance") and rnd.random() < 0.5:
        w = gen.weights(n, small=True)
        if w is not None and w["kind"] == "scalar":
            w = {"kind": "array", "w": [Fraction(w["w"])] * n, "valid": [True] * n, "form": "nan"}
        if w is not None and func == "covariance":
            # numpy.cov refuses weights that sum to zero (raises); a degenerate, mathematically undefined input
            # the property does not speak about: covariance is driven with positive weights only
            w["w"] = [x if x > 0 else Fraction(1) for x in w["w"]]
    if func == "wquantile":
        w = {"kind": "array", "w": [Fraction(rnd.choice([1, 2, 3, Fraction(1, 2), 0])) for _ in range(n)],
             "valid": [rnd.random() > 0.15 for _ in range(n)], "form": rnd.choice(["nan", "tuple"])}
    fmt = rnd.choice([("nan",), ("tuple", 0), ("tuple", -1)])
    if fact["dtype"] == "datetime" and fmt[0] == "tuple":
        fmt = ("tuple", np.datetime64("1970-01-01"))      # a sentinel of the fact's own type
    p = rnd.choice(cb.PROBS) if func in ("quantile", "wquantile") else None
    return cb.Case(dims, ishape, fact, w, rnd.random() < 0.5, fmt, func, p)


def gen_c18(env, tier, n_cases=None, prop="C18"):
    rnd = env.rnd
    n_cases = n_cases or (7000 if tier == "quick" else 80000)
    for _ in range(n_cases):
        func = rnd.choice(cb.STATS)
        if rnd.random() < 0.1 and func not in ("wquantile",):
            # a dimension with an extra axis: the statistic is filled once per slice by the same function object
            nd = rnd.choice([1, 2])
            case = stat_case(env, func, nd=nd, extra=[(2,)] + [()] * (nd - 1), maxrows=6)
        else:
            case = stat_case(env, func)
        if func == "wquantile":
            run_wquantile(env, case, prop)
        else:
            env.run_xcube(prop, case)


def gen_c18_shared(env, tier, n=None, prop="C18"):
    """two statistics on the same argument objects, the second one after the first: a weighted stddev (weights with
    missing values, facts with values hidden under a False validity) followed by min / max / quantile / stddev of the
    very same fact array"""
    rnd = env.rnd
    for _ in range(n or (150 if tier == "quick" else 3000)):
        first = stat_case(env, "stddev")
        if first.fact["dtype"] != "float":
            continue
        first.fact.pop("offset", None)
        first.weights = env.gen.weights(first.n, small=True)
        if first.weights is not None and first.weights["kind"] == "scalar":
            first.weights = None
        if first.weights is not None:
            first.weights["valid"] = [rnd.random() > 0.4 for _ in range(first.n)]
        env.run_xcube(prop, first, dtype=np.int64)
        func = rnd.choice(["max", "min", "quantile", "stddev"])
        fact = dict(first.fact)
        if func in ("max", "min"):
            if fact["K"] != 1:
                continue
            fact["oned"] = first.fact["oned"]
        second = cb.Case(first.dims, first.ishape, fact, None, rnd.random() < 0.5, first.fmt, func,
                         rnd.choice(cb.PROBS) if func == "quantile" else None)
        if func in ("max", "min") and not fact["oned"]:
            continue
        second.share_args_with(first)
        second._wa, second._wa_built = None, True
        env.run_xcube(prop, second, dtype=np.int64, note="second statistic on the same fact object")


def run_wquantile(env, case, prop="C18"):
    """weighted quantile: the evaluation is repeated with all weights multiplied by 3, by 2^-30 and by 2^30 (exact
    in binary floating point); every cell must come out the same (rescaling invariance)"""
    env.run_xcube(prop, case)
    ev_ids = [t for t, m in env.rec.meta.items() if m.get("group") == env.rec.group]
    by_tid = {e["tid"]: e for e in env.rec.events}
    for factor in (3, Fraction(1, 2 ** 30), 2 ** 30):
        w2 = dict(case.weights)
        w2["w"] = [x * factor for x in w2["w"]]
        c2 = cb.Case(case.dims, case.ishape, case.fact, w2, case.ignore, case.fmt, case.func, case.p)
        rec2 = cb.CubeRecorder()
        saved, env.rec = env.rec, rec2
        try:
            env.run_xcube(prop, c2)
        finally:
            env.rec = saved
        for t, e2 in zip(ev_ids, rec2.events):
            e1 = by_tid[t]
            for q, (a, b) in enumerate(zip(e1["cells"], e2["cells"]), 1):
                fa, fb = env.rec.floats[(t, q)], rec2.floats[(e2["tid"], q)]
                same = (np.isnan(fa) and np.isnan(fb)) or (not np.isnan(fa) and not np.isnan(fb) and abs(fa - fb) <= 1e-9 * max(1, abs(fa)))
                a["same2"] = bool(a["same2"]) and bool(same) and a["miss"] == b["miss"]


def gen_c14(env, tier):
    rnd, gen = env.rnd, env.gen
    n_cases = 3000 if tier == "quick" else 40000
    for _ in range(n_cases):
        nd = rnd.choice([1, 2, 2, 3, 3, 4])
        n = rnd.choice([0, 1, 2, 3, 5, 8])
        extents = [rnd.choice([1, 2, 3, 4]) for _ in range(nd)]
        dims = gen.dims(nd, n, extents)
        commons = [rnd.choice(cb.common_choices(rnd, d, e)) for d, e in zip(dims, extents)]
        idims = [canonical(env.iindex, d, c) for d, c in zip(dims, commons)]
        if rnd.random() < 0.15:
            # an index may carry an entry without rows (set_if, hand-built dicts; the library's validator accepts it): a
            # category that holds no row matches no row, whether or not it is listed
            for i, e in zip(idims, extents):
                if rnd.random() < 0.6:
                    v = rnd.choice([x for x in range(e + 2) if x != i.common] or [i.common + 1])
                    if (v,) not in i:
                        dict.__setitem__(i, (v,), np.array([], dtype=np.uint32))
        cube = env.ccube(idims)
        if n and rnd.random() < 0.12:
            # the cube holds its dimension objects, not a picture of them: one is re-expressed and a cell of it reassigned
            # in place after the cube was built; the walk is over the dimensions as they are when it happens
            k = rnd.randrange(nd)
            row, val = rnd.randrange(n), rnd.randrange(extents[k] + 1)
            idims[k].shift_common(rnd.choice([val, idims[k].common, rnd.randrange(extents[k] + 2)]))
            idims[k].update({(val,): np.array([row], dtype=np.uint32)})
            dims = list(dims)
            dims[k] = dims[k].copy()
            dims[k][row] = val
            commons = [int(i.common) for i in idims]
        delivered, inner = [], []
        exc = None
        item = lambda c, r: {"c": [int(x) for x in c], "rows": [int(x) + 1 for x in np.asarray(r).tolist()]}   # noqa: E731
        # one walk in eight is re-entered: at its k-th delivery the callback walks the same cube object once more
        # (a custom aggregate asking the cube a question); both walks must still deliver the complete multiset
        nest_at = rnd.randint(1, 6) if rnd.random() < 0.125 else 0
        calls = [0]

        def outer(c, r):
            delivered.append(item(c, r))
            calls[0] += 1
            if calls[0] == nest_at:
                if rnd.random() < 0.5:
                    cube.walk(lambda c2, r2: inner.append(item(c2, r2)))
                else:
                    inner.extend(item(c2, r2) for c2, r2 in cube.interactions())
        second = []
        several = rnd.random() < 0.2          # walk() takes one callback or a list / tuple of them: each gets everything
        try:
            if rnd.random() < 0.5 and not nest_at and not several:
                for c, r in cube.interactions():
                    delivered.append(item(c, r))
            elif several:
                cbs = [outer, lambda c2, r2: second.append(item(c2, r2))]
                cube.walk(cbs if rnd.random() < 0.5 else tuple(cbs))
            else:
                cube.walk(outer)
        except Exception as e:  # noqa
            exc = "%s: %s" % (type(e).__name__, e)
        for what, lst in (("", delivered),) + ((("nested ", inner),) if nest_at and calls[0] >= nest_at else ()) \
                + ((("second callback of the same ", second),) if several else ()):
            env.rec.tid += 1
            ev = {"tid": env.rec.tid, "prop": "C14", "kind": "walk", "n": n, "dims": [d.tolist() for d in dims],
                  "commons": [int(c) for c in commons], "delivered": lst, "exc": exc is not None}
            env.rec.events.append(ev)
            env.rec.meta[ev["tid"]] = {"cube": "ccube.walk", "dims": [d.tolist() for d in dims], "commons": commons, "exc": exc,
                                       "note": what + ("walk re-entered at delivery %d" % nest_at if nest_at else "")}


def gen_residue(env, tier, prop):
    """weighted means with expansion weights in the thousands that are not binary fractions, on both cubes: the cells
    the index cube reconstructs by differencing carry a rounding residue where the exact value is 0"""
    rnd, gen = env.rnd, env.gen
    for _ in range(60 if tier == "quick" else 1000):
        case = gen.shared_case("mean", nd=rnd.choice([2, 2, 3]), maxrows=8)
        case.weights = gen.weights(case.n, nondyadic=True)
        case.weights["scale"] = rnd.choice([Fraction(1000, 3), Fraction(50000, 7), Fraction(10 ** 6, 13)])
        case.fmt = rnd.choice([("tuple", 0), ("tuple", -1), ("nan",)])
        env.run_ccube(prop, case)
        env.run_xcube(prop, case)


def gen_reuse(env, tier, prop):
    """aggregate-function objects built directly (not through cube.count / cube.sum ...) and handed to calculate() on a
    first cube and then on a second cube with a different number of rows: what the second cube returns is a function of
    the second cube"""
    from ..drivers import pool as pl
    from . import c16
    rnd, gen = env.rnd, env.gen
    env.srcdir = core.REPO / "src"
    for q in range(60 if tier == "quick" else 1000):
        kind = "ccube"          # (the array cube's count object is given its row count when it is built)
        n1 = rnd.choice([2, 4, 7, 12])
        n2 = rnd.choice([m for m in (1, 3, 5, 7, 9) if m != n1])
        cases = []
        ignore, fmt = rnd.random() < 0.5, rnd.choice([("nan",), ("tuple", 0)])       # properties of the function object
        for n in (n1, n2):
            nd = rnd.choice([1, 2])
            extents = [rnd.choice([2, 3]) for _ in range(nd)]
            c = cb.Case(gen.dims(nd, n, extents), tuple(extents), None, None, ignore, fmt, "count")
            cases.append(c)
        w = rnd.choice([None, None, {"kind": "scalar", "w": rnd.choice([Fraction(1, 2), 2, 3])}])
        for c in cases:
            c.weights = w
        runs = [pl.PoolRun(env, kind, c, ["count"], core.SEED + q) for c in cases]
        f = runs[0].funcs()[0]
        for r in runs:
            r.cube.parallel = False
            try:
                out = r.cube.calculate([f])
            except Exception:  # noqa
                continue
            c16.record_outputs(env, prop, r, out)


def gen_stacked(env, tier, prop, n=None):
    """the same shared aggregate on BOTH cubes over dimensions that carry extra axes - several such dimensions at once,
    in any position (an array cube walks its sub-cubes over views of one strided copy of every dimension)"""
    rnd, gen = env.rnd, env.gen
    shapes = [(2,), (3,), (2,), (4,), (2, 3), (3, 2), (1, 4), (2, 1)]
    for _ in range(n or (250 if tier == "quick" else 4000)):
        nd = rnd.choice([2, 2, 3])
        extra = [rnd.choice(shapes) if rnd.random() < 0.7 else () for _ in range(nd)]
        if sum(1 for e in extra if e) < 2:
            a, b = rnd.sample(range(nd), 2)
            extra[a], extra[b] = rnd.choice(shapes[:4]), rnd.choice(shapes)
        case = gen.shared_case(rnd.choice(cb.SHARED), nd=nd, maxrows=6, extra=extra)
        env.run_xcube(prop, case, note="stacked on both cubes")
        env.run_ccube(prop, case, note="stacked on both cubes")


def gen_c03_all(env, tier):
    gen_c03(env, tier)
    gen_stacked(env, tier, "C03")
    gen_live(env, tier, "C03")
    gen_live(env, tier, "C03", with_axes=True)
    gen_reuse(env, tier, "C03")
    gen_twin_dims(env, tier, "C03")
    gen_residue(env, tier, "C03")
    gen_wide(env, tier, "C03")


def gen_twin_dims(env, tier, prop):
    """the same index object (array object) in two or three positions of one cube's dimension list: the cube of a
    variable against itself (cells off the diagonal hold no row), next to an independent dimension"""
    rnd, gen = env.rnd, env.gen
    for _ in range(40 if tier == "quick" else 700):
        func = rnd.choice(cb.SHARED) if prop != "C02" else "count"
        base = gen.shared_case(func, nd=2, maxrows=8, pad=False)
        d0, d1 = base.dims
        layout = rnd.choice([[0, 0], [0, 0, 1], [0, 1, 0], [1, 0, 0], [0, 0, 0]])
        dims = [(d0, d1)[k] for k in layout]
        ishape = tuple(base.ishape[k] for k in layout)
        case = cb.Case(dims, ishape, base.fact, base.weights if prop != "C02" else None, base.ignore, base.fmt, func)
        objs = env.index_dims(cb.Case([d0, d1], base.ishape))
        env.run_ccube(prop, case, idims=[objs[k] for k in layout], note="one index object in %d dimension positions" % layout.count(0))
        if prop != "C02":
            env.run_xcube(prop, case, note="one array in several dimension positions")


def gen_c02_all(env, tier):
    gen_c02(env, tier)
    gen_twin_dims(env, tier, "C02")
    from . import c13
    c13.pooled_blocks(env, tier, own="C02", only="count")      # the count cube through the worker pool (scheduled threads)
    gen_live(env, tier, "C02")
    gen_live(env, tier, "C02", with_axes=True)      # dimensions with two or three axes grow in place between evaluations


def gen_c13_all(env, tier):
    gen_c13(env, tier)
    gen_live(env, tier, "C13", with_axes=True)
    gen_live_x(env, tier, "C13")


def gen_c05_all(env, tier):
    gen_c05(env, tier)
    gen_live(env, tier, "C05")
    gen_live(env, tier, "C05", with_axes=True)


def gen_c14_long(env, tier):
    """walks over dimensions with 70-260 rows: a dense category in one dimension against single rows and short row
    lists of another dimension placed at, just before and just after every power-of-two block boundary"""
    rnd = env.rnd
    for n in ((70, 131, 200) if tier == "quick" else (65, 70, 129, 131, 200, 260)):
        picks = sorted({k * bs + d for bs in (8, 16, 32, 64, 128) for k in range(1, n // bs + 1) for d in (-1, 0, 1) if 0 <= k * bs + d < n})
        groups = [[q] for q in picks[:: (2 if tier == "quick" else 1)]] + [picks[i::5] for i in range(5)]
        for rows in groups:
            a = np.ones(n, dtype=np.int64)                       # category 1 on every row (common 0 absent from the data)
            if rnd.random() < 0.5:
                a[rnd.sample(range(n), 3)] = 0
            b = np.zeros(n, dtype=np.int64)
            b[rows] = 1
            for dims, commons in (([a, b], [0, 0]), ([b, a], [0, 0]), ([a, b, b], [0, 0, 0])):
                record_walk(env, dims, commons)


def harvest_size_constants(modules, lo=200, hi=1 << 17):
    """integer constants of the current source of the given catii modules (literals, constant shifts / powers /
    products) - C19's partition refinement applied to sizes: a row count at which the code switches strategy is a
    boundary, whatever its value"""
    import ast, inspect
    out = set()
    for mod in modules:
        try:
            tree = ast.parse(inspect.getsource(mod))
        except Exception:  # noqa
            continue
        for node in ast.walk(tree):
            if isinstance(node, (ast.Constant, ast.BinOp)):
                try:
                    v = eval(compile(ast.Expression(node), "<c>", "eval"), {"__builtins__": {}})
                except Exception:  # noqa
                    continue
                if isinstance(v, int) and not isinstance(v, bool) and lo <= v <= hi:
                    out.add(v)
    return sorted(out)


def gen_c14_big(env, tier):
    """walks whose intermediate row sets have thousands of rows: 4097 rows always, and c - 1, c, c + 1, 2c + 1 rows for
    every size constant of the current ccubes source; a category on (nearly) every row against categories holding
    the first, the last and a few middle rows, in either dimension order (the whole event goes through TLC)"""
    import catii.ccubes
    rnd = env.rnd
    consts = harvest_size_constants([catii.ccubes])
    env.extra_notes = getattr(env, "extra_notes", {})
    env.extra_notes["size_constants_harvested_from_ccubes"] = consts
    sizes = sorted({4097} | {c + d for c in consts for d in (-1, 0, 1)} | {2 * c + 1 for c in consts if 2 * c + 1 <= (1 << 17)})
    for n in sizes:
        a = np.ones(n, dtype=np.int64)                         # category 1 on every row, common 0 absent
        a2 = a.copy()
        a2[[0, n // 3]] = 0
        b = np.zeros(n, dtype=np.int64)
        b[[0, n // 2, n - 2, n - 1]] = [1, 2, 1, 2]
        c3 = np.zeros(n, dtype=np.int64)
        c3[n - 1] = 1
        for dims in ([a, b], [b, a], [a2, b], [a, a2, b], [a, c3], [b, a, c3]):
            record_walk(env, dims, [0] * len(dims))


def gen_c14_threads(env, tier):
    """several cubes walked at the same time from four threads (the intersection kernel releases the GIL, so the walks
    overlap for real): every walk still delivers its own combinations with its own rows"""
    import sys
    from multiprocessing.pool import ThreadPool
    rnd = env.rnd
    n = 4097
    jobs = []
    for q in range(8 if tier == "quick" else 40):
        a = np.ones(n, dtype=np.int64)
        a[rnd.sample(range(n), 40)] = 0
        b = np.zeros(n, dtype=np.int64)
        b[rnd.sample(range(n), 600)] = 1
        b[rnd.sample(range(n), 300)] = 2
        dims = [a, b] if q % 2 else [b, a]
        idims = [canonical(env.iindex, d, 0) for d in dims]
        jobs.append((dims, env.ccube(idims)))

    def walk(job):
        out = []
        try:
            job[1].walk(lambda c, r: out.append({"c": [int(x) for x in c], "rows": [int(x) + 1 for x in np.asarray(r).tolist()]}))
            return out, None
        except Exception as e:  # noqa
            return out, "%s: %s" % (type(e).__name__, e)
    old = sys.getswitchinterval()
    sys.setswitchinterval(1e-6)
    try:
        with ThreadPool(4) as pool:
            results = pool.map(walk, jobs * 2)
    finally:
        sys.setswitchinterval(old)
    for (dims, _cube), (delivered, exc) in zip(jobs * 2, results):
        env.rec.tid += 1
        ev = {"tid": env.rec.tid, "prop": "C14", "kind": "walk", "n": n, "dims": [d.tolist() for d in dims],
              "commons": [0] * len(dims), "delivered": delivered, "exc": exc is not None}
        env.rec.events.append(ev)
        env.rec.meta[ev["tid"]] = {"cube": "ccube.walk", "dims": "(4097 rows)", "commons": [0] * len(dims), "exc": exc,
                                   "note": "walked concurrently with seven other cubes from four threads"}


def gen_c14_all(env, tier):
    gen_c14(env, tier)
    gen_c14_long(env, tier)
    gen_c14_big(env, tier)
    gen_c14_threads(env, tier)


def gen_c04_all(env, tier):
    gen_c04(env, tier)
    gen_wide(env, tier, "C04")
    gen_reuse(env, tier, "C04")          # a function object used on a second cube: which cells are missing is a fact about that cube
    from . import c13
    c13.pooled_blocks(env, tier, own="C04")          # the missing rule through the worker pool (scheduled threads)


def gen_c18_all(env, tier):
    gen_c18(env, tier)
    gen_c18_shared(env, tier)


GENS = {"C02": gen_c02_all, "C03": gen_c03_all, "C04": gen_c04_all, "C05": gen_c05_all, "C13": gen_c13_all, "C14": gen_c14_all, "C18": gen_c18_all}


def judge(chk, rec, own):
    events = rec.events
    B = 1500
    for k in range(0, len(events), B):
        batch = events[k:k + B]
        res, verdicts = core.validate_batch("Trace_Cube.tla", "Trace_Cube.cfg", batch, timeout=3000)
        chk.add_tlc("L3 trace validation (Trace_Cube)", res)
        expected = {}
        for m in __import__("re").finditer(r'<<\s*"E",\s*(\d+),\s*(\d+),\s*(-?\d+),\s*(\d+)\s*>>', res.out):
            expected[(int(m.group(1)), int(m.group(2)))] = Fraction(int(m.group(3)), int(m.group(4)))
        for ev in batch:
            vs = verdicts[ev["tid"]]
            m = rec.meta[ev["tid"]]
            chk.traces += 1
            chk.nontrivial.add(json.dumps([ev.get("func"), ev["dims"], ev.get("vals"), ev.get("w"), ev.get("fvalid"),
                                           ev.get("wvalid"), ev.get("ignore"), ev.get("fmt"), ev.get("commons"),
                                           m.get("note"), m.get("cube")], default=str))
            for v in vs:
                if v == "ok":
                    continue
                if v.endswith(":value-differs"):
                    # numeric re-check of every cell TLC judged different, against TLC's exact expected value
                    bad = False
                    tol = 1e-9 * max(1.0, cb_total(m))
                    for (t, q), x in expected.items():
                        if t != ev["tid"]:
                            continue
                        f = rec.floats.get((t, q))
                        off = abs(float(((m.get("case") or {}).get("fact") or {}).get("offset", 0) or 0))
                        if ev["func"] == "stddev" and off:
                            # translated data: the inputs are exact, the two-pass definition is accurate to a few ulps of
                            # the *magnitude* per deviation (delta), i.e. to about 2*sigma*delta*n + n*delta^2 in the variance
                            nrows = max(1, len(ev.get("vals") or [1]))
                            delta = 1e-12 * (off + cb_total(m))
                            tv = 1e-9 * max(1.0, float(x)) + 2 * float(x) ** 0.5 * delta * nrows + nrows * delta * delta
                            ok = f is not None and f == f and abs(f * f - float(x)) <= tv
                        elif ev["func"] in ("stddev", "corrcoef"):
                            ok = f is not None and f == f and abs(f * f - float(x)) <= tol * max(1.0, 2 * abs(f))
                        else:
                            ok = f is not None and f == f and abs(f - float(x)) <= tol
                        if not ok:
                            bad = True
                            m = dict(m, first_bad_cell=ev["cells"][q - 1], expected=str(x), got=f)
                    if not bad:
                        chk.extra["value_mismatches_explained_by_rounding"] = chk.extra.get("value_mismatches_explained_by_rounding", 0) + 1
                        continue
                owner = v.split(":")[0]
                sig = "%s:%s:%s" % (m.get("cube"), ev.get("func", "walk"), v)
                if owner == own:
                    chk.violation(sig + klass(ev, m), "%s -> %s" % (json.dumps(m, default=str)[:700], v), {"meta": m, "event": ev, "clause": v})
                else:
                    chk.extra.setdefault("other_property_clauses", {}).setdefault(sig, 0)
                    chk.extra["other_property_clauses"][sig] += 1
    chk.evaluations += len(events)
    cells = sum(len(e.get("cells", [])) for e in events)
    chk.extra["cells_judged"] = cells
    byf = {}
    for e in events:
        key = "%s/%s" % (rec.meta[e["tid"]].get("cube"), e.get("func", "walk"))
        byf[key] = byf.get(key, 0) + 1
    chk.extra["events_by_cube_and_function"] = byf
    for e in events[:: max(1, len(events) // 4)][:4]:
        chk.sample(rec.meta[e["tid"]])
    for sig, n in sorted(chk.extra.get("other_property_clauses", {}).items()):
        chk.note("other-property clause seen %d times: %s" % (n, sig))


def cb_total(m):
    c = m.get("case") or {}
    t = 1.0
    f = c.get("fact")
    if f:
        t = max(t, 3 * sum(abs(float(Fraction(x))) for r in f["vals"] for x in r))
    return t


def klass(ev, m):
    c = m.get("case") or {}
    parts = []
    w = c.get("weights")
    parts.append("w=" + ("none" if not w else w["kind"]))
    parts.append("ignore" if c.get("ignore") else "propagate")
    parts.append("fmt=" + str((c.get("fmt") or ["-"])[0]))
    f = c.get("fact")
    if f:
        parts.append("K=%d" % (len(f["vals"][0]) if f["vals"] else 0))
    return ":" + ",".join(parts)


def model_check(chk, tier, own):
    """L1: walk recursion + regions + marginal differencing + counters = brute force, for every common per dimension"""
    cfgs = ["MC_CCubeAlg_quick.cfg"]
    if tier == "thorough":
        cfgs.append("MC_CCubeAlg.cfg")
        if own == "C02":
            cfgs.append("MC_CCubeAlg_wide.cfg")
    if own == "C03":
        res = core.run_tlc("MC_XCubeAlg.tla", "MC_XCubeAlg.cfg", timeout=600)
        chk.add_tlc("L1 MC_XCubeAlg (flat coordinate through the mintype cast = row-major index)", res)
        if res.rc != 0:
            chk.violation("L1:XCubeAlg:" + ",".join(res.violated), res.out[-2000:], {"leg": "L1", "cfg": "MC_XCubeAlg.cfg"})
    for cfg in cfgs:
        res = core.run_tlc("CCubeAlg.tla", cfg, timeout=3000)
        chk.add_tlc("L1 %s (CCubeAlg = brute force for every common)" % cfg, res)
        if res.rc != 0:
            chk.violation("L1:CCubeAlg:" + ",".join(res.violated), res.out[-2500:], {"leg": "L1", "cfg": cfg})


def exhaustive_small_scope(chk, env, own, tier):
    """L2: EVERY configuration of the model's small scope (CCubeAlg: 2 dimensions x 3 rows x extent 2, every common per
    dimension incl. the absent one, every fact validity pattern) is generated by TLC and evaluated on the real index cube"""
    res = core.run_tlc("CCubeAlg.tla", "Gen_CCube.cfg", workers=1, timeout=1200)
    chk.add_tlc("L2 generator Gen_CCube (all configurations of the small scope)", res)
    cases = res.json_cases("CASE")
    if len(cases) < 1000:
        raise core.MachineryFailure("Gen_CCube produced %d cases" % len(cases))
    if tier == "quick" and own not in ("C02", "C14"):
        cases = cases[:: 3]
    for c in cases:
        dims = [np.array(d, dtype=np.int64) for d in c["data"]]
        n = len(dims[0])
        commons = list(c["commons"])
        ishape = tuple(max(3, cm + 1) for cm in commons)
        if own == "C14":
            record_walk(env, dims, commons)
            continue
        if own == "C02":
            case = cb.Case(dims, ishape, None, None, False, ("nan",), "count")
        else:
            fact = {"vals": [[Fraction(r + 2)] for r in range(n)], "valid": [[bool(v)] for v in c["fvalid"]], "form": "tuple",
                    "dtype": "float", "oned": True, "K": 1}
            func = ("sum", "mean", "valid_count")[(sum(commons) + n) % 3]
            ignore = bool(sum(c["fvalid"]) % 2)
            case = cb.Case(dims, ishape, fact, None, ignore, ("tuple", 0), func)
        env.run_ccube(own, case, commons=commons, note="exhaustive small scope (Gen_CCube)")
    chk.extra["exhaustive_small_scope_configurations"] = len(cases)


def record_walk(env, dims, commons):
    idims = [canonical(env.iindex, d, c) for d, c in zip(dims, commons)]
    cube = env.ccube(idims)
    delivered, exc = [], None
    try:
        cube.walk(lambda c, r: delivered.append({"c": [int(x) for x in c], "rows": [int(x) + 1 for x in np.asarray(r).tolist()]}))
    except Exception as e:  # noqa
        exc = "%s: %s" % (type(e).__name__, e)
    env.rec.tid += 1
    ev = {"tid": env.rec.tid, "prop": "C14", "kind": "walk", "n": len(dims[0]), "dims": [d.tolist() for d in dims],
          "commons": [int(c) for c in commons], "delivered": delivered, "exc": exc is not None}
    env.rec.events.append(ev)
    env.rec.meta[ev["tid"]] = {"cube": "ccube.walk", "dims": [d.tolist() for d in dims], "commons": commons, "exc": exc}


def run_shared(chk, tier, own):
    if own in ("C02", "C03", "C04", "C05", "C14"):
        model_check(chk, tier, own)
    env = Env(core.SEED)
    if own in ("C02", "C03", "C04", "C05", "C14"):
        exhaustive_small_scope(chk, env, own, tier)
    GENS[own](env, tier)
    judge(chk, env.rec, own)


def judge_recorded_suite(chk, own):
    """L3 on the repository's own tests: every shared-aggregate call they make on either cube is judged cell by cell"""
    data = core.record_test_suite()
    rec = cb.CubeRecorder()
    for n, e in enumerate(data["cube"]):
        ev = e["event"]
        ev["tid"] = n + 1
        ev["prop"] = own
        rec.events.append(ev)
        rec.meta[ev["tid"]] = e["meta"]
        for q, v in e["floats"].items():
            rec.floats[(ev["tid"], int(q))] = v
    if not rec.events:
        raise core.MachineryFailure("no cube events recorded from the test-suite")
    judge(chk, rec, own)
    chk.extra["test_suite_cube_calls_recorded"] = data["recorded"]
    chk.extra["test_suite_calls_skipped_out_of_contract"] = data["skipped"]


def run(chk, tier):
    run_shared(chk, tier, OWN)
    judge_recorded_suite(chk, OWN)
    chk.rule = RULE
    chk.assumptions += ASSUME


RULE = ("seeded random problem instances (0-4 dimensions, 0-12 rows, extents 1-4 plus padding, every form of fact, weight, "
        "policy and report format) evaluated on the real cubes; one event per sub-cube, every returned cell judged by TLC "
        "against the per-cell contract with exact rationals; distinct by (function, data, options, encoding)")
ASSUME = ["float -> rational conversion (limit_denominator) with numeric re-check against TLC's exact value",
          "harness-side canonical index constructor and numpy indexing of result blocks"]


def case_from_json(c):
    """inverse of Case.describe()"""
    dims = [np.array(d, dtype=np.int64) for d in c["dims"]]
    fact = None
    if c.get("fact"):
        f = c["fact"]
        vals = [[Fraction(x) for x in r] for r in f["vals"]]
        fact = {"vals": vals, "valid": f["valid"], "form": f["form"], "dtype": f["dtype"], "oned": f["oned"], "offset": f.get("offset", 0),
                "K": len(vals[0]) if vals else (1 if f["oned"] else len(f["valid"][0]) if f["valid"] else 1)}
    w = None
    if c.get("weights"):
        w = dict(c["weights"])
        if w["kind"] == "scalar":
            w["w"] = Fraction(w["w"])
        else:
            w["w"] = [Fraction(x) for x in w["w"]]
            if "w_event" in w:
                w["w_event"] = [Fraction(x) for x in w["w_event"]]
            if "scale" in w:
                w["scale"] = Fraction(str(w["scale"]))
    fmt = tuple(c["fmt"])
    if len(fmt) > 1 and isinstance(fmt[1], str):
        fmt = (fmt[0], np.datetime64(fmt[1]))
    return cb.Case(dims, tuple(c["ishape"]) if c.get("ishape") is not None else None, fact, w, c["ignore"], fmt, c["func"],
                   Fraction(c["p"]) if c.get("p") else None)


def replay(chk, path):
    """re-execute the recorded evaluation on the current tree (same data, same encoding) and judge the fresh events;
    pool traces and sessions are re-validated as recorded"""
    r = json.load(open(path))["replay"]
    m = r.get("meta") or {}
    if "case" not in m or m.get("cube") not in ("ccube", "xcube") or "event" not in r:
        if "event" in r:
            res, verdicts = core.validate_batch("Trace_Cube.tla", "Trace_Cube.cfg", [r["event"]], workers=1)
            chk.add_tlc("replay (recorded event re-validated)", res)
            chk.traces = 1
            for v in verdicts[r["event"]["tid"]]:
                if v != "ok" and v.split(":")[0] == chk.pid:
                    chk.violation("%s" % v, json.dumps(m, default=str)[:500], r)
        return
    env = Env(core.SEED)
    case = case_from_json(m["case"])
    note = m.get("note") or {}
    prop = r["event"].get("prop", chk.pid)
    if m["cube"] == "ccube":
        env.run_ccube(prop, case, commons=note.get("commons"), explicit=note.get("explicit_shape", True))
    else:
        env.run_xcube(prop, case, explicit=note.get("explicit_shape", True), dtype=np.dtype(note.get("dtype", "int64")))
    judge(chk, env.rec, chk.pid)
