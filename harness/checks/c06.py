"""C06 (and C01, C07, C15, C17-index through the same executions): index operations.

L3  seeded histories of every public index operation on live objects (1-D, 2-D, 3-D for slicing),
    each call one fully-logged transition validated by TLC against the dense-array contract of
    IIndex.tla (Trace_IIndex.tla): content, well-formedness clause by clause, modal common,
    canonical equality, frame conditions, no shared storage for requested copies.
"""
import json

from .. import build, core
from ..drivers import index as ix
from ..drivers import index_chains, fromarray_cases

OWN = "C06"
SIZES = {"quick": dict(chains=700, steps=10, chains3d=80, big=60), "thorough": dict(chains=6000, steps=14, chains3d=600, big=500)}


def record(tier, own):
    build.load_catii("plain")
    from catii.iindexes import iindex, column_stack
    sz = SIZES[tier]
    ch = index_chains.Chains(iindex, column_stack, core.SEED)
    for _ in range(sz["chains"]):
        ch.chain(sz["steps"])
    for _ in range(sz["chains3d"]):
        ch.chain3d(4)
    for _ in range(sz["big"]):
        ch.chain(6, big=True)
    if own in ("C01", "C07", "C15"):
        fromarray_cases.run_cases(ch.rec, tier, core.SEED + 1)
    return ch.rec


def model_check(chk, tier):
    """L1: every mirrored operation of IIndexAlg refines the dense-array contract on all small receivers"""
    cfg = "MC_IIndexAlg.cfg" if tier == "thorough" else "MC_IIndexAlg_quick.cfg"
    res = core.run_tlc("MC_IIndexAlg.tla", cfg, timeout=3000)
    chk.add_tlc("L1 %s (IIndexAlg refines IIndex)" % cfg, res)
    if res.rc != 0:
        chk.violation("L1:IIndexAlg:" + ",".join(res.violated), res.out[-2500:], {"leg": "L1", "cfg": cfg})


def run_shared(chk, tier, own):
    if own in ("C06", "C07", "C15"):
        model_check(chk, tier)
    rec = record(tier, own)
    judge(chk, rec.events, rec.meta, own)


def judge(chk, events, meta, own):
    ser = []
    for ev in events:
        s = ix.serialise(ev)
        if s is not None:
            ser.append(s)
    B = 1200
    ooc = 0
    for k in range(0, len(ser), B):
        res, verdicts = core.validate_batch("Trace_IIndex.tla", "Trace_IIndex.cfg", ser[k:k + B], timeout=3000)
        chk.add_tlc("L3 trace validation (Trace_IIndex)", res)
        for ev in ser[k:k + B]:
            vs = verdicts[ev["tid"]]
            m = meta[ev["tid"]]
            if "out-of-contract" in vs:
                ooc += 1
                continue
            if "bad-event" in vs:
                raise core.MachineryFailure("bad event %s" % (m,))
            chk.traces += 1
            chk.nontrivial.add(json.dumps([ev["op"], ev["recv"], ev["args"], ev["others"]], sort_keys=True))
            for v in vs:
                if v == "ok":
                    continue
                owner = v.split(":")[0]
                sub = ev["args"].get("q", "") if ev["op"] == "query" else ev["args"].get("which", "") if ev["op"] == "set_update" else ""
                sig = "%s%s:%s" % (ev["op"], ("/" + sub) if sub else "", v)
                if owner == own:
                    raw = next(e for e in events if e["tid"] == ev["tid"])
                    chk.violation(sig, "%s -> %s %s" % (json.dumps(m, default=str)[:500], v, raw.get("excmsg", "")),
                                  {"meta": m, "event": ev, "clause": v})
                else:
                    chk.extra.setdefault("other_property_clauses", {}).setdefault(sig, 0)
                    chk.extra["other_property_clauses"][sig] += 1
    chk.evaluations += len(ser)
    chk.extra["out_of_contract_events_skipped"] = ooc
    opc = {}
    for ev in ser:
        opc[ev["op"]] = opc.get(ev["op"], 0) + 1
    chk.extra["events_by_operation"] = opc
    for ev in ser[:: max(1, len(ser) // 5)][:5]:
        chk.sample({"op": ev["op"], "args": ev["args"], "recv": ev["recv"], "call": str(meta[ev["tid"]])[:300]})
    for sig, n in sorted(chk.extra.get("other_property_clauses", {}).items()):
        chk.note("other-property clause seen %d times: %s" % (n, sig))


def run(chk, tier):
    run_shared(chk, tier, OWN)
    chk.rule = ("seeded random histories (length 9 quick / 14 thorough) over value universes incl. negatives, sparse and "
                "dtype-boundary values, 1-D/2-D receivers with 0..7 rows, 3-D for slicing, 64-bit universes rank-abstracted; "
                "an event is distinct by (operation, receiver state, arguments, operand states)")
    chk.assumptions += ["harness projection of an index (dict items, dtype, validate(True))", "numpy.shares_memory",
                        "rank abstraction for values beyond 31 bits"]


def replay(chk, path):
    r = json.load(open(path))["replay"]
    ev = r["event"]
    res, verdicts = core.validate_batch("Trace_IIndex.tla", "Trace_IIndex.cfg", [ev], workers=1)
    chk.add_tlc("replay (recorded event re-validated)", res)
    chk.traces = 1
    for v in verdicts[ev["tid"]]:
        if v != "ok" and v.split(":")[0] == chk.pid:
            chk.violation("%s:%s" % (ev["op"], v), json.dumps(r["meta"], default=str)[:500], r)
