"""C11: INDX files are byte-for-byte the documented layout (see c10.py for the legs)."""
from . import c10

OWN = "C11"


def run(chk, tier):
    c10.run_shared(chk, tier, OWN)
    chk.rule = ("every C10 file: bytes == Encode(x, SaverIws(x), 4) and Decode(bytes) == x (TLC); every file the "
                "specification lays out (all admissible index word sizes x row-id word sizes 1/2/4/8, both arity-byte "
                "conventions for empty indexes) loaded by the real loader; size field for row totals 2^30-1 .. 2^33 "
                "via seek-only array stand-ins; distinct by data/bytes")
    chk.assumptions += ["stand-in arrays whose tofile() seeks (sparse file) for the >= 2^30 cases", "Big.tla"]


replay = c10.replay
