"""C16: pooled evaluation is schedule-independent.

L1  MC_CubePool: every interleaving of the pool model (chunks, checks, fills) gives the serial regions;
    write sets are disjoint.
L2  behaviours of the model (TLC -simulate, Gen_CubePool) drive the baton of the deterministic
    scheduler at task boundaries on the real cubes.
L3  seeded opcode-granularity schedules on real ccube/xcube (pool sizes 1..4, one or two aggregates
    in one pass); every task-level event is replayed against the pool model by TLC
    (Trace_CubePool) and the output arrays are compared bit for bit with the serial run;
    thorough tier adds the real ThreadPool under a 1 microsecond switch interval, pool sizes 1..16.
"""
import copy
import json
import random
import sys

import numpy as np

from .. import core
from ..drivers import cubes as cb
from ..drivers import pool as pl
from . import c03

OWN = "C16"
CC_FUNCS = ["count", "valid_count", "sum", "mean"]
XC_FUNCS = CC_FUNCS + ["stddev", "quantile", "min", "max", "covariance", "corrcoef"]


def model_check(chk, tier):
    cfgs = ["MC_CubePool_quick.cfg", "MC_CubePool_serial.cfg"] + (["MC_CubePool.cfg", "MC_CubePool_chunks.cfg"] if tier == "thorough" else [])
    for cfg in cfgs:
        res = core.run_tlc("MC_CubePool.tla", cfg, timeout=3000, deadlock=False)
        chk.add_tlc("L1 %s" % cfg, res)
        if res.rc != 0:
            chk.violation("L1:%s:%s" % (cfg, ",".join(res.violated + res.action_violated)), res.out[-1500:], {"leg": "L1", "cfg": cfg})


def schedules_from_model(chk, n, seed):
    """L2: worker sequences of random behaviours of the pool model"""
    res = core.run_tlc("Gen_CubePool.tla", "Gen_CubePool.cfg", workers=1, simulate="num=%d" % n, depth=60, seed=seed,
                       timeout=600)
    chk.add_tlc("L2 generator Gen_CubePool (-simulate)", res)
    scripts = [[int(w) for w in c] for c in res.json_cases("BEH")]
    if not scripts:
        raise core.MachineryFailure("no behaviours from Gen_CubePool")
    return scripts


def new_env():
    env = c03.Env(core.SEED)
    env.srcdir = core.REPO / "src"
    return env


def pick_names(rnd, kind):
    pool = CC_FUNCS if kind == "ccube" else XC_FUNCS
    k = rnd.choice([1, 1, 2])
    return [rnd.choice(pool) for _ in range(k)]


def record_outputs(env, prop, pr, outs):
    """the serial outputs themselves are judged against the Agg contract (Trace_Cube)"""
    funcs = pr.funcs()
    names = [type(f).__name__.split("_", 1)[1] for f in funcs]
    for nm, out in zip(names, outs):
        if nm == "quantile":
            continue
        if nm == "valid_count" and pr.case.fmt[0] == "plain" and not pr.case.ignore:
            continue        # the documented shortcut the property excludes
        c = copy.copy(pr.case)
        c.func = nm
        if nm == "count":
            c.fact = None
        if nm in ("min", "max") and c.fact is not None:
            if c.fact["K"] > 1:
                continue
            c.fact = dict(c.fact, oned=True)
            c.weights = None
        if nm == "corrcoef":
            c = cb.Case(c.dims, c.ishape, c.fact, None, c.ignore, c.fmt, nm, None)
        env.rec.record(prop, c, out, None, tuple(pr.cube.interacting_shape), pr.kind, total=cb.total_of(c))


def run(chk, tier):
    model_check(chk, tier)
    env = new_env()
    rnd = random.Random(core.SEED)
    n_cubes = 80 if tier == "quick" else 600
    n_sched = 6 if tier == "quick" else 30
    scripts = schedules_from_model(chk, 40 if tier == "quick" else 400, core.SEED + 1)
    traces, meta = [], {}
    tid = 0
    steps = switches = 0
    for q in range(n_cubes):
        kind = rnd.choice(["ccube", "xcube"])
        names = pick_names(rnd, kind)
        case = pl.scaffold_case(env.gen, rnd, names[0])
        if case.fact is None:
            case.fact = env.gen.fact(case.n, K=rnd.choice([1, 2]), small=True)
        if any(n in ("covariance", "corrcoef") for n in names):
            case.fact = env.gen.fact(case.n, K=2, small=True, allow_int=False)
            case.fact["oned"] = False
            if case.weights is not None and case.weights["kind"] == "array":
                case.weights["w"] = [x if x > 0 else Fraction(1) for x in case.weights["w"]]
        if case.weights is not None and case.weights["kind"] == "scalar":
            case.weights = None
        pr = pl.PoolRun(env, kind, case, names, core.SEED + q)
        try:
            serial = pr.fresh_serial()
        except Exception as e:  # noqa
            # the plain serial evaluation of this cube fails: what it should have returned is the business of the
            # properties about values (C02-C05, C13, C18); there is no reference to compare schedules with
            chk.note("other-property=C03 serial reference evaluation raised %s: %s" % (type(e).__name__, str(e)[:120]))
            continue
        record_outputs(env, OWN, pr, serial)
        if q % 3 == 0:
            # pre-history: the same cube object has already seen a pooled evaluation that was interrupted
            pr.evaluate("pool", P=2, faults={1, pr.T}, sched_seed=q, switch_prob=0.1, hard=bool(q % 2))
        for s in range(n_sched):
            P = rnd.choice([1, 2, 2, 3, 4, 6, 16])
            script = None
            if s == 0:
                script = [((w - 1) % P) + 1 for w in rnd.choice(scripts)]
            # every other pooled run is the very first evaluation of a brand-new cube object (the serial reference ran on
            # `pr`): whatever a cube sets up lazily on first use is then set up by racing workers
            first_use = s % 2 == 1
            tr, outs, _ = (pr.twin() if first_use else pr).evaluate(
                "pool", P=P, sched_seed=core.SEED * 1000 + q * 37 + s, script=script, switch_prob=rnd.choice([0.01, 0.05, 0.3]))
            tid += 1
            tr["tid"] = tid
            tr["prop"] = OWN
            tr["sameasserial"] = outs is not None and pl.same_bits(outs, serial)
            traces.append(tr)
            meta[tid] = {"cube": kind, "aggregates": names, "P": P, "tasks": pr.T, "scripted": script is not None,
                         "cube_had_an_interrupted_pooled_run_before": q % 3 == 0 and not first_use, "first_evaluation_of_a_new_cube_object": first_use,
                         "case": case.describe(), "exc": getattr(pr, "last_exc", None)}
            steps += tr["steps"]
            switches += tr["switches"]
            if tr["pools"] != 1:
                raise core.MachineryFailure("the scheduler's pool was not engaged (pools=%s)" % tr["pools"])
        # bounded preemption (P = 2): one or two forced context switches placed systematically over the whole run
        calib, _, _ = pr.evaluate("pool", P=2, sched_seed=1, force_at=())
        nsteps = max(1, calib["steps"])
        slots = 16 if tier == "quick" else 64
        for j in range(slots):
            k1 = int((j + rnd.random()) * nsteps / slots) + 1
            force = {k1} if j % 2 == 0 else {k1, k1 + rnd.randint(1, max(2, nsteps // slots))}
            tr, outs, _ = (pr.twin() if j % 4 >= 2 else pr).evaluate("pool", P=2, sched_seed=j, force_at=force)
            tid += 1
            tr.update(tid=tid, prop=OWN, sameasserial=outs is not None and pl.same_bits(outs, serial))
            traces.append(tr)
            meta[tid] = {"cube": kind, "aggregates": names, "P": 2, "tasks": pr.T, "forced_switch_at_steps": sorted(force), "first_evaluation_of_a_new_cube_object": j % 4 >= 2,
                         "of_steps": nsteps, "case": case.describe(), "exc": getattr(pr, "last_exc", None)}
            steps += tr["steps"]
            switches += tr["switches"]
        if tier == "thorough" and q % 4 == 0:
            old = sys.getswitchinterval()
            sys.setswitchinterval(1e-6)
            try:
                for P in (1, 2, 3, 4, 8, 16):
                    tr, outs, _ = pr.evaluate("pool", P=P, real_pool=True)
                    tid += 1
                    tr.update(tid=tid, prop=OWN, mode="real", events=[], sameasserial=outs is not None and pl.same_bits(outs, serial))
                    traces.append(tr)
                    meta[tid] = {"cube": kind, "aggregates": names, "P": P, "tasks": pr.T, "real_threadpool": True,
                                 "case": case.describe()}
            finally:
                sys.setswitchinterval(old)
    tid = real_thread_stress(chk, tier, traces, meta, tid)
    engagement_events(env, rnd)
    judge_pool(chk, traces, meta, OWN)
    c03.judge(chk, env.rec, OWN)
    chk.extra["opcode_steps"] = steps
    chk.extra["forced_switches"] = switches
    chk.rule = ("seeded cubes with 3..12 sub-cubes x one or two aggregates in one pass x pool sizes 1..4 x seeded schedules "
                "(baton passed before any bytecode of catii code with probability 1/5/30%, or at task boundaries following a "
                "TLC behaviour of the pool model); distinct by (cube, aggregates, pool size, schedule)")
    chk.assumptions += ["the scheduler serialises threads at bytecode granularity; a NumPy C call is one atomic step (GIL)",
                        "chunking/exception semantics of the stand-in pool copy CPython 3.12 Pool.map"]


def real_thread_stress(chk, tier, traces, meta, tid):
    """what the bytecode scheduler cannot reach: code that runs with the GIL released (the Cython kernels) really does
    run in parallel. Cubes with 20000 rows (the kernels then run for microseconds at a time) are evaluated with the real
    ThreadPool under a 1 microsecond switch interval; the pooled arrays must equal the serial ones bit for bit. The
    oracle here is the property itself (pooled = serial); serial results are judged against Agg.tla elsewhere."""
    import numpy as np
    from catii import ccube, xcube, iindex
    rng = np.random.RandomState(core.SEED + 16)
    N, cols = 20000, 12
    a = rng.randint(0, 4, size=(N, cols)).astype(np.uint8)
    b = rng.randint(0, 5, size=N).astype(np.uint8)
    c = rng.randint(0, 3, size=(N, 3)).astype(np.uint8)
    fact, weights = rng.rand(N), rng.rand(N)
    setups = [("ccube", lambda: ccube([iindex.from_array(a), iindex.from_array(b)])),
              ("ccube", lambda: ccube([iindex.from_array(b), iindex.from_array(c), iindex.from_array(b)])),
              ("xcube", lambda: xcube([a, b]))]

    def evaluate(make, parallel, P):
        cube = make()
        cube.parallel, cube.poolsize = parallel, P
        return [cube.count(), cube.count(weights=weights), cube.sum(fact), cube.mean(fact, weights=weights), cube.valid_count(fact)]
    old = sys.getswitchinterval()
    sys.setswitchinterval(1e-6)
    try:
        for kind, make in setups:
            serial = evaluate(make, False, 1)
            for P in ((2, 4, 8) if tier == "quick" else (2, 3, 4, 8, 16)):
                for rep in range(3 if tier == "quick" else 10):
                    exc = None
                    try:
                        outs = evaluate(make, True, P)
                    except Exception as e:  # noqa
                        outs, exc = None, "%s: %s" % (type(e).__name__, e)
                    tid += 1
                    traces.append({"tid": tid, "prop": OWN, "mode": "real", "P": P, "T": 3, "CS": 1, "faults": [], "events": [],
                                   "outcome": "returned" if outs is not None else "raised", "tagok": outs is not None,
                                   "sameasserial": outs is not None and pl.same_bits(outs, serial), "secondok": True,
                                   "steps": 0, "switches": 0, "pools": 1})
                    meta[tid] = {"cube": kind, "aggregates": ["count", "weighted count", "sum", "weighted mean", "valid_count"], "P": P,
                                 "real_threadpool": True, "rows": N, "case": "20000 random rows, seed %d" % (core.SEED + 16), "exc": exc}
    finally:
        sys.setswitchinterval(old)
    return tid


def judge_pool(chk, traces, meta, own):
    B = 400
    for k in range(0, len(traces), B):
        batch = traces[k:k + B]
        res, verdicts = core.validate_batch("Trace_CubePool.tla", "Trace_CubePool.cfg", batch, timeout=3000)
        chk.add_tlc("L3 trace validation (Trace_CubePool)", res)
        for tr in batch:
            m = meta[tr["tid"]]
            chk.traces += 1
            chk.nontrivial.add(json.dumps([m, tr["events"]], default=str))
            for v in verdicts[tr["tid"]]:
                if v == "ok":
                    continue
                owner = v.split(":")[0]
                sig = "%s:%s:%s" % (m["cube"], tr["mode"], v)
                if owner == own:
                    chk.violation(sig, "%s -> %s" % (json.dumps(m, default=str)[:600], v), {"meta": m, "trace": tr, "clause": v})
                else:
                    chk.note("other-property clause: %s" % sig)
    chk.evaluations += len(traces)
    chk.extra["pool_traces"] = len(traces)
    chk.extra["pool_events"] = sum(len(t["events"]) for t in traces)
    for tr in traces[:: max(1, len(traces) // 3)][:3]:
        chk.sample({"meta": meta[tr["tid"]], "events": tr["events"][:12], "outcome": tr["outcome"]})


from fractions import Fraction  # noqa: E402


def replay(chk, path):
    r = json.load(open(path))["replay"]
    if "trace" in r:
        res, verdicts = core.validate_batch("Trace_CubePool.tla", "Trace_CubePool.cfg", [r["trace"]], workers=1)
        chk.add_tlc("replay", res)
        chk.traces = 1
        for v in verdicts[r["trace"]["tid"]]:
            if v != "ok" and v.split(":")[0] == chk.pid:
                chk.violation(v, json.dumps(r["meta"], default=str)[:500], r)
    else:
        c03.replay(chk, path)


def engagement_events(env, rnd):
    """beyond the listed properties (X00): when does a cube decide to use its pool?"""
    import catii.ccubes as CC
    import catii.xcubes as XC
    from unittest import mock
    for _ in range(40):
        big = rnd.choice([4, 8, 12, 30])
        nd = rnd.choice([1, 2])
        extra = [rnd.choice([(), (2,), (3,), (2, 2), (1,)]) for _ in range(nd)]
        n = rnd.choice([0, 1, 2, 3, 5])
        dims = env.gen.dims(nd, n, [2] * nd, extra)
        case = cb.Case(dims, (2,) * nd, None, None, False, ("nan",), "count")
        for kind, mod in (("ccube", CC), ("xcube", XC)):
            with mock.patch.object(mod, "BIG_REGIONS", big):
                cube = env.ccube(env.index_dims(case), interacting_shape=(2,) * nd) if kind == "ccube" else env.xcube(dims, interacting_shape=(2,) * nd)
            env.rec.tid += 1
            ev = {"tid": env.rec.tid, "prop": "X00", "kind": "engage", "T": int(cube.scaffold_size), "n": n, "big": big,
                  "parallel": bool(cube.parallel), "dims": [], "commons": []}
            env.rec.events.append(ev)
            env.rec.meta[ev["tid"]] = {"cube": kind, "engage": True, "extra_axes": [list(e) for e in extra], "rows": n, "threshold": big}
