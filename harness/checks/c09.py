"""C09: the kernels never touch memory outside their buffers.

L1  MC_SetKernels invariant NoOOB/WithinCap: every buffer index of the transcribed algorithm is in
    range, for all inputs of the small scope (every exhaustion order).
L3  every C08 input through the bounds-checked rebuild of the current .pyx (IndexError = `oob`),
    thorough tier additionally through the ASan build of the unmodified .pyx (`asan`).
    Trace_SetKernels rejects any event with oob or asan set.
"""
from . import c08

OWN = "C09"


def run(chk, tier):
    c08.run_variant(chk, tier, "checked", OWN)
    # the unmodified kernel with every operand placed against an inaccessible page: an access outside the buffer
    # (also by raw memcpy / pointer arithmetic that Cython's bounds checks cannot see) kills the child process
    c08.run_variant(chk, tier, "guard", OWN)
    if tier == "thorough":
        c08.run_variant(chk, tier, "asan", OWN)
    chk.exhaustive = True
    chk.rule = ("C08's inputs (all pairs of subsets of a 6/8-point universe, every empty/non-empty combination and "
                "exhaustion position; wrappers; multi-way lists; random long inputs) executed on the bounds-checked "
                "rebuild (and ASan build in the thorough tier); distinct by (kind, op, operands)")
    chk.assumptions += ["Cython's boundscheck(True) code generation flags every out-of-range memoryview index",
                        "ASan (thorough tier); numpy's small-block cache may hide <16-byte overreads from ASan"]


replay = c08.replay
