"""C18: decided by the shared cube machinery (see c03.py): instances generated for C18, evaluated on the
real cubes, every cell judged by TLC against Agg.tla."""
from . import c03

OWN = "C18"


def run(chk, tier):
    c03.run_shared(chk, tier, OWN)
    chk.rule = c03.RULE
    chk.assumptions += c03.ASSUME


replay = c03.replay
