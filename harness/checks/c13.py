"""C13: decided by the shared cube machinery (see c03.py): instances generated for C13, evaluated on the
real cubes (serially, and with the worker pool engaged under the deterministic scheduler), every block judged by TLC
against the aggregate of the corresponding 1-D slices (Agg.tla)."""
import itertools
import json
import random

import numpy as np

from .. import core
from ..drivers.index import canonical
from . import c03, c16
from ..drivers import pool as pl

OWN = "C13"


def pooled_blocks(env, tier, own=OWN, only=None):
    """the same statement with the pool engaged: every block of the pooled result is judged against the contract"""
    rnd = random.Random(core.SEED + 13)
    env.srcdir = core.REPO / "src"
    for q in range(40 if tier == "quick" else 600):
        kind = rnd.choice(["ccube", "xcube", "xcube"]) if only is None else "ccube"
        names = [rnd.choice(c16.CC_FUNCS) if only is None else only]
        case = pl.scaffold_case(env.gen, rnd, names[0])
        if case.fact is None:
            case.fact = env.gen.fact(case.n, K=rnd.choice([1, 2]), small=True)
        if case.weights is not None and case.weights["kind"] == "scalar":
            case.weights = None
        pr = pl.PoolRun(env, kind, case, names, core.SEED + q)
        for s in range(3):
            tr, outs, _ = pr.evaluate("pool", P=rnd.choice([2, 3, 4, 6, 8]), sched_seed=q * 7 + s, switch_prob=rnd.choice([0.05, 0.3]))
            if outs is not None:
                c16.record_outputs(env, own, pr, outs)
        if q % 4 == 0:
            # ... and through CPython's own ThreadPool (1 microsecond switch interval): the stand-in pool completes a job
            # before it hands anything back, the real one does not wait for anybody unless asked to
            import sys
            old = sys.getswitchinterval()
            sys.setswitchinterval(1e-6)
            try:
                for P in (2, 4):
                    tr, outs, _ = pr.evaluate("pool", P=P, real_pool=True)
                    if outs is not None:
                        c16.record_outputs(env, own, pr, outs)
            finally:
                sys.setswitchinterval(old)


# ---- the scaffold as a specified algorithm (CubeAxes.tla) ---------------------------------------------------------
AXES_FAMILY = [[[2]], [[3], []], [[], [2]], [[2, 3]], [[3, 2]], [[1, 4]], [[2], [3]], [[2, 1], [2]], [[], []], [[]],
               [[2, 3], [2]], [[2], [], [2, 2]], [[3, 1], [2]], [[2], [2], [2]], [[4], [3]], [[1], [1]], [[1, 1]],
               [[], [3, 2], []], [[2], [3, 2]]]


def model_check_axes(chk, tier):
    """L1: product()/slices1d/flattened labels/views as a state machine; sub-cubes fill their views cell by cell in any
    interleaving; plus the witness (labels built the other way round) that must FAIL, so the invariants are not vacuous"""
    for kind in ("ccube", "xcube"):
        cfg = "MC_CubeAxes_%s%s.cfg" % (kind, "_quick" if tier == "quick" else "")
        res = core.run_tlc("MC_CubeAxes.tla", cfg, timeout=1800)
        chk.add_tlc("L1 %s (scaffold: one task per block, block holds its own slices, written once, any interleaving)" % cfg, res)
        if res.rc != 0:
            chk.violation("L1:CubeAxes:" + ",".join(res.violated + res.action_violated), res.out[-2500:], {"leg": "L1", "cfg": cfg})
    for cfg, what in (("MC_CubeAxes_witness.cfg", "labels appended instead of prepended"),
                      ("MC_CubeAxes_witness_shared.cfg", "a task's coordinates read back from an attribute all tasks share")):
        w = core.run_tlc("MC_CubeAxes.tla", cfg, timeout=600)
        if w.rc == 0:
            raise core.MachineryFailure("CubeAxes witness (%s) was not rejected by TLC" % what)


def _selfnaming(sh, n):
    """dense array of shape (n,) + sh whose cell [r, k..] holds the row-major number of k"""
    sh = tuple(sh)
    ext = int(np.prod(sh)) if sh else 1
    a = np.arange(ext, dtype=np.int64).reshape(sh) if sh else np.int64(0)
    return np.broadcast_to(a, (n,) + sh).copy(), ext


def _unravel(v, sh):
    return [int(x) for x in np.unravel_index(int(v), tuple(sh))] if sh else []


def scaffold_events(env, tier):
    rnd = random.Random(core.SEED + 131)
    fam = [json.loads(json.dumps(x)) for x in AXES_FAMILY]
    for _ in range(12 if tier == "quick" else 150):
        nd = rnd.choice([1, 2, 2, 3])
        fam.append([[rnd.choice([1, 2, 2, 3, 4]) for _ in range(rnd.choice([0, 1, 1, 2]))] for _ in range(nd)])
    events, meta = [], {}
    tid = 0
    for extras in fam:
        for kind in ("ccube", "xcube"):
            n = rnd.choice([1, 2, 3, 5])
            dense, exts = zip(*[_selfnaming(sh, n) for sh in extras]) if extras else ((), ())
            tid += 1
            ev = {"tid": tid, "prop": "C13", "kind": kind, "extras": extras, "ishape": [int(e) for e in exts], "exc": False,
                  "scaffold_shape": [], "shape": [], "scaffold_size": 0, "labels": [], "sels": [], "placed": []}
            meta[tid] = {"cube": kind, "extras": extras, "rows": n}
            try:
                if kind == "ccube":
                    dims = [canonical(env.iindex, d, 0) for d in dense]
                    cube = env.ccube(dims, interacting_shape=tuple(exts))
                    tasks = list(cube.product())
                    ev["labels"] = [[[int(c) for c in t["coords"]] for t in task] for task in tasks]
                    ev["sels"] = [[_unravel(np.asarray(t["data"].to_array()).ravel()[0], sh) for t, sh in zip(task, extras)]
                                  for task in tasks]
                else:
                    cube = env.xcube([d.copy() for d in dense], interacting_shape=tuple(exts))
                    tasks = list(cube.product)
                    ev["labels"] = [[[int(c) for c in (t or ())] for t in task] for task in tasks]
                    ev["sels"] = ev["labels"]
                ev["scaffold_shape"] = [int(x) for x in cube.scaffold_shape]
                ev["shape"] = [int(x) for x in cube.shape]
                ev["scaffold_size"] = int(cube.scaffold_size)
                if not extras:
                    res = None
                else:
                    res = np.nan_to_num(np.asarray(cube.count(), dtype=float))
                ssh = tuple(x for sh in extras for x in sh)
                if res is not None and tuple(res.shape) == ssh + tuple(exts):
                    for j in itertools.product(*[range(e) for e in ssh]):
                        nz = np.argwhere(res[j] > 0)
                        if len(nz) == 1 and res[j][tuple(nz[0])] == n:
                            got = [_unravel(c, sh) for c, sh in zip(nz[0], extras)]
                        else:
                            got = [[-1] for _ in extras]
                        ev["placed"].append([[int(x) for x in j], got])
                elif res is not None:
                    ev["shape"] = [int(x) for x in res.shape]       # the result's own shape is what the caller sees
                else:
                    ev["placed"].append([[], []])
            except Exception as e:  # noqa
                ev["exc"] = True
                meta[tid]["exc"] = "%s: %s" % (type(e).__name__, str(e)[:200])
            events.append(ev)
    return events, meta


def judge_axes(chk, events, meta, own=OWN):
    res, verdicts = core.validate_batch("Trace_CubeAxes.tla", "Trace_CubeAxes.cfg", events, timeout=1200)
    chk.add_tlc("L3 trace validation (Trace_CubeAxes: scaffold attributes, product(), placement of self-naming sub-cubes)", res)
    for ev in events:
        chk.traces += 1
        for v in verdicts[ev["tid"]]:
            if v == "ok":
                continue
            m = meta[ev["tid"]]
            if v.startswith(own + ":"):
                chk.violation("%s:scaffold:%s" % (m["cube"], v), "%s -> %s" % (json.dumps(m, default=str)[:500], v),
                              {"meta": m, "event": ev, "clause": v, "spec": "Trace_CubeAxes"})
            else:
                chk.note("organisation-level clause %s on %s extras=%s" % (v, m["cube"], m["extras"]))
    chk.extra["scaffold_events"] = len(events)


def run(chk, tier):
    c03.model_check(chk, tier, OWN) if False else None
    model_check_axes(chk, tier)
    env = c03.Env(core.SEED)
    ev, meta = scaffold_events(env, tier)
    judge_axes(chk, ev, meta)
    c03.GENS[OWN](env, tier)
    pooled_blocks(env, tier)
    c03.judge(chk, env.rec, OWN)
    chk.rule = c03.RULE + "; plus pooled evaluations (pool sizes 2-8, also larger than the number of sub-cubes; seeded bytecode schedules) judged block by block; plus the scaffold as a specified algorithm (CubeAxes.tla: L1 over every interleaving of the sub-cubes' deliveries, L3 on scaffold_shape / shape / product() and on where self-naming sub-cubes land)"
    chk.assumptions += c03.ASSUME


replay = c03.replay
