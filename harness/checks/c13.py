"""C13: decided by the shared cube machinery (see c03.py): instances generated for C13, evaluated on the
real cubes (serially, and with the worker pool engaged under the deterministic scheduler), every block judged by TLC
against the aggregate of the corresponding 1-D slices (Agg.tla)."""
import random

from .. import core
from . import c03, c16
from ..drivers import pool as pl

OWN = "C13"


def pooled_blocks(env, tier, own=OWN, only=None):
    """the same statement with the pool engaged: every block of the pooled result is judged against the contract"""
    rnd = random.Random(core.SEED + 13)
    env.srcdir = core.REPO / "src"
    for q in range(40 if tier == "quick" else 600):
        kind = rnd.choice(["ccube", "xcube", "xcube"]) if only is None else "ccube"
        names = [rnd.choice(c16.CC_FUNCS) if only is None else only]
        case = pl.scaffold_case(env.gen, rnd, names[0])
        if case.fact is None:
            case.fact = env.gen.fact(case.n, K=rnd.choice([1, 2]), small=True)
        if case.weights is not None and case.weights["kind"] == "scalar":
            case.weights = None
        pr = pl.PoolRun(env, kind, case, names, core.SEED + q)
        for s in range(3):
            tr, outs, _ = pr.evaluate("pool", P=rnd.choice([2, 3, 4, 6, 8]), sched_seed=q * 7 + s, switch_prob=rnd.choice([0.05, 0.3]))
            if outs is not None:
                c16.record_outputs(env, own, pr, outs)


def run(chk, tier):
    c03.model_check(chk, tier, OWN) if False else None
    env = c03.Env(core.SEED)
    c03.GENS[OWN](env, tier)
    pooled_blocks(env, tier)
    c03.judge(chk, env.rec, OWN)
    chk.rule = c03.RULE + "; plus pooled evaluations (pool sizes 2-8, also larger than the number of sub-cubes; seeded bytecode schedules) judged block by block"
    chk.assumptions += c03.ASSUME


replay = c03.replay
