"""C08 (and, with the instrumented builds, C09): sorted-set kernels.

L1  MC_SetKernels: the transcribed merge loops = set algebra, no out-of-bounds access, for all
    pairs of subsets of a U-point universe / all lists of <= K subsets (multi-way).
L3  the kernel rebuilt from the current .pyx on the same pairs (embedded into uint32 incl. 0 and
    2^32-1), all None/empty wrapper combinations, random long inputs; each call validated by TLC.
"""
import json
import shutil

from .. import build, core
from ..drivers import kernels

OWN = "C08"


def describe(c):
    d = {k: v for k, v in c.items() if k != "flags"}
    return json.dumps(d)[:300]


def run_variant(chk, tier, variant, own):
    # L1
    res = core.run_tlc("MC_SetKernels.tla", "MC_SetKernels.cfg" if tier == "thorough" else "MC_SetKernels_quick.cfg",
                       timeout=1800)
    chk.add_tlc("L1 SetKernels (algorithm = contract, ~oob)", res)
    if res.rc != 0:
        chk.violation("L1:" + ",".join(res.violated), "algorithm layer violates: %s\n%s" % (res.violated, res.out[-1200:]),
                      {"leg": "L1"})
    cases = kernels.gen_cases(tier, core.SEED)
    so = str(build.build_kernel("plain" if variant == "guard" else variant))
    if variant == "guard":
        wd = core.workdir("guard")
        try:
            events = kernels.execute_guarded(cases, so, str(wd))
        finally:
            shutil.rmtree(wd, ignore_errors=True)
    elif variant == "asan":
        wd = core.workdir("asan")
        try:
            events = kernels.execute_subprocess(cases, so, build.asan_runtime(), str(wd))
        finally:
            shutil.rmtree(wd, ignore_errors=True)
    elif variant == "threads":
        # operands long enough for two calls to overlap in time, from four threads
        cases = [c for c in cases if c["kind"] == "kernel" and len(c["A"]) + len(c["B"]) >= 150]
        cases = (cases * 3)[:6000]
        build.load_catii("plain")
        import catii.set_operations as mod
        events = kernels.execute_threaded(cases, mod)
    else:
        build.load_catii(variant)
        import catii.set_operations as mod
        events = kernels.execute(cases, mod)
    consume(chk, cases, events, own, variant)


def consume(chk, cases, events, own, variant):
    B = 25000
    for k in range(0, len(events), B):
        res, verdicts = core.validate_batch("Trace_SetKernels.tla", "Trace_SetKernels.cfg", events[k:k + B])
        chk.add_tlc("L3 trace validation (%s build)" % variant, res)
        for ev in events[k:k + B]:
            v = verdicts[ev["tid"]][0]
            c = cases[ev["tid"] - 1]
            if v == "out-of-contract":
                raise core.MachineryFailure("driver generated an out-of-contract case: %s" % describe(c))
            chk.traces += 1
            key = (c["kind"], c.get("op"), json.dumps(c.get("A", c.get("a", c.get("L")))), json.dumps(c.get("B", c.get("b"))))
            chk.nontrivial.add(key)
            if v == "ok":
                continue
            owner = v.split(":")[0]
            if owner == own:
                fn = c.get("op", "many") if c["kind"] != "many" else "union_many"
                shape = shape_class(c)
                chk.violation("%s:%s:%s:%s" % (c["kind"], fn, v, shape),
                              "%s -> %s %s" % (describe(c), v, ev.get("excmsg", "")), {"case": c, "variant": variant, "clause": v})
            else:
                chk.note("other-property=%s clause=%s case=%s" % (owner, v, describe(c)[:120]))
    chk.evaluations += len(events)
    for c in cases[:: max(1, len(cases) // 5)][:5]:
        chk.sample(c)


def shape_class(c):
    if c["kind"] == "kernel":
        return "A%s-B%s" % ("empty" if not c["A"] else "nonempty", "empty" if not c["B"] else "nonempty")
    if c["kind"] == "many":
        return "n%d" % len(c["L"])
    return "a%s-b%s" % ("None" if c["a"] is None else len(c["a"]) and "nonempty" or "empty",
                        "None" if c["b"] is None else len(c["b"]) and "nonempty" or "empty")


def run(chk, tier):
    run_variant(chk, tier, "plain", OWN)
    run_variant(chk, tier, "threads", OWN)       # the long operands again, from four threads at once
    chk.exhaustive = True
    chk.rule = ("all pairs of subsets of a 6 (quick) / 8 (thorough) point universe embedded in uint32 "
                "{0,1,[2,7,]2^31-1,2^31,2^32-2,2^32-1} x 3 kernels; all None/empty/non-empty wrapper combinations over 4 "
                "points with copy flags; all lists of 0..3 subsets for the multi-way union; seeded random inputs of "
                "length <= 200; a case is distinct by (kind, op, operands)")
    chk.assumptions += ["kernel rebuilt from the current .pyx with cython+gcc", "rank abstraction (monotone, per event)"]


def replay(chk, path):
    r = json.load(open(path))["replay"]
    build.load_catii({"asan": "checked", "checked": "checked"}.get(r.get("variant"), "plain"))
    import catii.set_operations as mod
    cases = [r["case"]]
    events = kernels.execute(cases, mod)
    consume(chk, cases, events, chk.pid, r.get("variant", "plain"))
