"""C01: decided on the shared index executions (see c06.py) by the C01 clauses of Trace_IIndex.tla."""
from . import c06

OWN = "C01"


def run(chk, tier):
    c06.run_shared(chk, tier, OWN)
    c06.judge_recorded_suite(chk, OWN)
    chk.rule = c06_rule()
    chk.assumptions += ["harness projection of an index (dict items, dtype, validate(True))", "rank abstraction for values beyond 31 bits"]


def c06_rule():
    return ("the C06 histories plus the from_array/to_array option cross product (all arrays over {0,1,2} up to 3-4 rows x "
            "common omitted/present/absent x mapping none/injective/many-to-one x counts given or not, 80-400 row sparse arrays "
            "that select the row-scan strategy, dtype-boundary and negative values, zero-row arrays); distinct by "
            "(operation, receiver state, arguments, operand states)")


replay = c06.replay
