"""C19: fit_dtype picks the narrowest sufficient integer dtype.

L1  FitDtype.tla: Ladder (branch-by-branch mirror of the code) = Narrowest (contract) on the
    partition points {0, +-(2^k - 1), +-2^k, +-(2^k + 1)}^2.
L3  the real fit_dtype on the same partition refined by every integer constant harvested from
    its *current* source (+-1), every call an event validated by TLC against Narrowest.
"""
import ast
import inspect
import itertools

from .. import build, core
from ..absn import zbig


def harvest_constants(fn):
    """every integer constant (constant-folded) occurring in the source of fn"""
    src = inspect.getsource(fn)
    tree = ast.parse(src.lstrip() if not src.startswith(" ") else "if 1:\n" + src)
    out = set()
    for node in ast.walk(tree):
        if isinstance(node, (ast.BinOp, ast.UnaryOp, ast.Constant)):
            try:
                v = eval(compile(ast.Expression(node), "<c>", "eval"), {"__builtins__": {}}, {})
            except Exception:
                continue
            if isinstance(v, int) and not isinstance(v, bool) and abs(v) < 2 ** 70:
                out.add(v)
    return out


def points(tier, consts):
    ks = range(0, 65) if tier == "thorough" else [0, 1, 6, 7, 8, 9, 14, 15, 16, 17, 30, 31, 32, 33, 62, 63, 64]
    pts = {0, 3, 100}
    for k in ks:
        for d in (-1, 0, 1):
            pts.add(2 ** k + d)
            pts.add(-(2 ** k + d))
    for c in consts:
        for d in (-1, 0, 1):
            pts.add(c + d)
            pts.add(-(c + d))
    return sorted(pts)


def run(chk, tier):
    catii = build.load_catii("plain")
    import numpy
    from catii.iindexes import fit_dtype

    # L1
    res = core.run_tlc("MC_FitDtype.tla", "MC_FitDtype.cfg" if tier == "thorough" else "MC_FitDtype_quick.cfg", timeout=1200)
    chk.add_tlc("L1 FitDtype ladder=narrowest", res)
    if res.rc != 0:
        chk.violation("L1:" + ",".join(res.violated), "algorithm layer (mirror of fit_dtype) differs from contract:\n"
                      + res.out[-1500:], {"leg": "L1"})

    # L1, unbounded: Apalache (SMT) checks Ladder = Narrowest for ALL integers of the domain (FitDtypeInt.tla)
    import time
    t0 = time.time()
    ok, out = core.run_apalache("FitDtypeInt.tla", "LadderIsNarrowest")
    chk.legs["L1 Apalache FitDtypeInt (all integers, symbolic)"] = {"holds": ok, "wall_s": round(time.time() - t0, 1)}
    if not ok:
        chk.violation("L1:apalache:LadderIsNarrowest", out[-1500:], {"leg": "L1-apalache"})

    # L3
    consts = harvest_constants(fit_dtype)
    pts = points(tier, consts)
    events = []
    raw = {}
    tid = 0
    for mx, mn in itertools.product(pts, pts):
        if mn > 0:
            continue
        if not (-2 ** 63 <= mn and mx < 2 ** 64 and mx >= -2 ** 63):
            continue
        # the same pair of values as the library's own call sites hand them over: Python ints, NumPy integer scalars
        # (numpy.max of a typed array), and floats (numpy.max of an array that mixes values above and below 2^63 is a
        # float64) whenever the float IS the integer
        variants = [(mx, mn)]
        if -2 ** 63 <= mx < 2 ** 63:
            variants.append((numpy.int64(mx), numpy.int64(mn)))
        if 0 <= mx and mn == 0:
            variants.append((numpy.uint64(mx), 0))
        if int(float(mx)) == mx and int(float(mn)) == mn:
            variants.append((float(mx), mn))
            variants.append((numpy.float64(mx), float(mn)))
        for amx, amn in variants:
            tid += 1
            try:
                if mn == 0 and (tid % 2):
                    dt = fit_dtype(amx)          # default minval
                else:
                    dt = fit_dtype(amx, amn)
                name, exc = numpy.dtype(dt).name, False
            except Exception as e:  # noqa
                name, exc = type(e).__name__, True
            events.append({"tid": tid, "mx": zbig(mx), "mn": zbig(mn), "dtype": name, "exc": exc})
            raw[tid] = (mx, mn, name)
    # the call sites the property names: the dtype of dense output (to_array) and the INDX coordinate word size
    import io, os, shutil, struct
    from catii.iindexes import iindex
    from catii.indxio import IndxIO
    from ..drivers.index import canonical
    callers = {}
    los = [0, -1, -128, -129, -32768, -32769, -2 ** 31, -2 ** 31 - 1]
    his = [0, 1, 127, 128, 255, 256, 32767, 32768, 65535, 65536, 2 ** 31 - 1, 2 ** 31, 2 ** 32 - 1, 2 ** 32]
    for lo in los:
        for hi in his:
            for common_is in ("lo", "hi", "mid"):
                vals = [lo, hi, 0]
                common = {"lo": lo, "hi": hi, "mid": 0}[common_is]
                idx = canonical(iindex, numpy.array(vals, dtype=object), common)
                tid += 1
                try:
                    name, exc = idx.to_array().dtype.name, False
                except Exception as e:  # noqa
                    name, exc = type(e).__name__, True
                mx, mn = max(vals), min(vals + [0])
                events.append({"tid": tid, "mx": zbig(mx), "mn": zbig(mn), "dtype": name, "exc": exc})
                raw[tid] = (mx, mn, name)
                callers[tid] = "to_array() of values %s with common %s" % (vals, common)
                # dense output through a mapping that does not mention the common value: whatever is written into the
                # cells of the common value, the dtype chosen for the output has to hold it (no OverflowError)
                part = {v: k + 1 for k, v in enumerate(sorted(set(vals))) if v != common}
                if part:
                    try:
                        idx.to_array(mapping=part)
                    except OverflowError as e:
                        chk.violation("call-site:to_array(mapping):OverflowError", "to_array(mapping=%s) of values %s with common %s: %s" % (part, vals, common, e),
                                      {"call_site": "to_array-partial-mapping", "values": vals, "common": common, "mapping": {str(k): v for k, v in part.items()}})
                    except Exception:  # noqa  (anything else is outside what this property says)
                        pass
    # an index without entries (a constant column): the dtype of its dense output is fitted to the common value alone
    for common in sorted(set(los + his)):
        for shape in ((3,), (2, 2), (0,)):
            idx = iindex({}, common, shape)
            tid += 1
            try:
                name, exc = idx.to_array().dtype.name, False
            except Exception as e:  # noqa
                name, exc = type(e).__name__, True
            events.append({"tid": tid, "mx": zbig(max(common, 0)), "mn": zbig(min(common, 0)), "dtype": name, "exc": exc})
            raw[tid] = (max(common, 0), min(common, 0), name)
            callers[tid] = "to_array() of an index of shape %s without entries, common %s" % (shape, common)
    wd = core.workdir("c19")
    try:
        classes = [1, 255, 256, 65535, 65536, 2 ** 32 - 1, 2 ** 32, 2 ** 63 - 1]
        # coordinates in [2^63, 2^64) are unsigned 64-bit values too (next to a small one NumPy's maximum of them is a float)
        for cmax in classes + [2 ** 63, 2 ** 63 + 2 ** 40]:
            for common in classes:
                for nent in (0, 1, 2):
                    entries = {(cmax if j == 0 else 1, j): numpy.array([j], dtype=numpy.uint32) for j in range(nent)}
                    path = os.path.join(str(wd), "w.indx")
                    tid += 1
                    mx = max([common] + [c for k in entries for c in k])
                    try:
                        with open(path, "wb") as f:
                            IndxIO.save(f, entries, common, numpy.dtype(numpy.uint32))
                        iws = open(path, "rb").read()[21]
                        name, exc = "uint%d" % (8 * iws), False
                    except Exception as e:  # noqa
                        name, exc = type(e).__name__, True
                    events.append({"tid": tid, "mx": zbig(mx), "mn": zbig(0), "dtype": name, "exc": exc})
                    raw[tid] = (mx, 0, name)
                    callers[tid] = "INDX coordinate word size for %d entries, largest coordinate %d, common %d" % (nent, cmax if nent else 0, common)
    finally:
        shutil.rmtree(wd, ignore_errors=True)
    chk.extra["call_site_events"] = len(callers)
    collapsed_call_site(chk)
    B = 20000
    indomain = 0
    for k in range(0, len(events), B):
        res, verdicts = core.validate_batch("Trace_FitDtype.tla", "Trace_FitDtype.cfg", events[k:k + B])
        chk.add_tlc("L3 trace validation", res)
        for t, vs in verdicts.items():
            v = vs[0]
            mx, mn, name = raw[t]
            if v == "out-of-domain":
                continue
            indomain += 1
            chk.nontrivial.add((mx, mn))
            if v != "ok":
                if v == "bad-event":
                    raise core.MachineryFailure("bad event %s" % (raw[t],))
                where = callers.get(t)
                chk.violation(("call-site:%s" % v) if where else ("fit_dtype:%s" % v),
                              "%s -> %s : %s" % (where or ("fit_dtype(max=%d, min=%d)" % (mx, mn)), name, v),
                              {"max": mx, "min": mn, "got": name, "clause": v, "call_site": where})
    chk.traces = indomain
    chk.evaluations = len(events)
    chk.exhaustive = True
    chk.rule = ("every pair (max, min) of partition points {0, +-(2^k-1), +-2^k, +-(2^k+1)} (k per tier) "
                "plus every integer constant harvested from fit_dtype's current source +-1, restricted to the "
                "property's domain by the spec's InDomain; each distinct in-domain pair counts once")
    chk.extra["harvested_constants"] = sorted(consts)
    chk.extra["points"] = len(pts)
    for t in list(raw)[:: max(1, len(raw) // 5)][:5]:
        chk.sample({"max": raw[t][0], "min": raw[t][1], "dtype": raw[t][2]})
    chk.assumptions += ["numpy.dtype(...).name names the dtype", "Big.tla byte arithmetic"]


def collapsed_call_site(chk):
    """the third call site the property names: collapsed() sizes its working arrays with fit_dtype - the output by the
    precedence values, the per-row tally by the number of columns. Neither dtype is visible from outside, only what a
    too narrow one does (wrap-around or OverflowError): wide receivers and precedence values on both sides of every
    dtype boundary, judged by the dense-array contract (Trace_IIndex)."""
    import random
    import numpy
    from catii.iindexes import iindex, column_stack
    from ..drivers import index as ix
    rnd = random.Random(core.SEED + 19)
    rec = ix.Recorder(iindex, column_stack)
    precs = [[1, 0, -1], [1, 0, 2], [127, 0], [128, 0], [0, 128], [255, 1], [256, 1], [1, 256], [-128, 0], [-129, 0], [0, -129],
             [32767, 0], [32768, -1], [65535, 0], [65536, 0], [-32769, 5], [2 ** 31 - 1, 0], [2 ** 31, 0], [-1, 2 ** 31]]
    for ncols in (1, 2, 127, 128, 129, 255, 256, 257):
        for prec in precs:
            for common in (prec[0], prec[-1], 7):
                U = sorted(set(prec + [common, 7]))
                dense = numpy.array([[rnd.choice(U) if rnd.random() < 0.3 else common for _ in range(ncols)] for _ in range(3)], dtype=object)
                rec.collapsed(ix.canonical(iindex, dense, common), prec)
    ser = [e for e in (ix.serialise(ev) for ev in rec.events) if e is not None]
    res, verdicts = core.validate_batch("Trace_IIndex.tla", "Trace_IIndex.cfg", ser, timeout=3000)
    chk.add_tlc("L3 trace validation of collapsed() call sites (Trace_IIndex)", res)
    for ev in ser:
        for v in verdicts[ev["tid"]]:
            if v != "ok" and not v.startswith(("X00", "C17")):
                raw = next(e for e in rec.events if e["tid"] == ev["tid"])
                chk.violation("call-site:collapsed:%s" % v, "%s -> %s %s" % (str(rec.meta[ev["tid"]])[:300], v, raw.get("excmsg", "")),
                              {"call_site": "collapsed", "columns": ev["recv"]["shape"][1], "precedence": ev["args"]["precedence"], "clause": v})
    chk.extra["collapsed_call_site_events"] = len(ser)
    chk.evaluations += len(ser)


def replay(chk, path):
    import json
    catii = build.load_catii("plain")
    import numpy
    from catii.iindexes import fit_dtype
    r = json.load(open(path))["replay"]
    if r.get("call_site") == "collapsed":
        return collapsed_call_site(chk)
    if r.get("call_site") == "to_array-partial-mapping":
        from catii.iindexes import iindex
        from ..drivers.index import canonical
        idx = canonical(iindex, numpy.array(r["values"], dtype=object), r["common"])
        try:
            idx.to_array(mapping={int(k): v for k, v in r["mapping"].items()})
        except OverflowError as e:
            chk.violation("call-site:to_array(mapping):OverflowError", str(e), r)
        chk.traces = 1
        return
    name = numpy.dtype(fit_dtype(r["max"], r["min"])).name
    ev = [{"tid": 1, "mx": zbig(r["max"]), "mn": zbig(r["min"]), "dtype": name, "exc": False}]
    res, verdicts = core.validate_batch("Trace_FitDtype.tla", "Trace_FitDtype.cfg", ev, workers=1)
    chk.add_tlc("replay", res)
    chk.traces = 1
    if verdicts[1][0] not in ("ok", "out-of-domain"):
        chk.violation("fit_dtype:%s" % verdicts[1][0], "fit_dtype(%d,%d) -> %s" % (r["max"], r["min"], name), r)
