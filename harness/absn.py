"""Abstraction helpers shared by drivers: Big (byte-limb) integers, exact rationals."""
from fractions import Fraction


def big(n):
    """non-negative int -> canonical little-endian byte list"""
    assert n >= 0
    out = []
    while n:
        out.append(n & 255)
        n >>= 8
    return out


def unbig(b):
    n = 0
    for i, x in enumerate(b):
        n |= x << (8 * i)
    return n


def zbig(n):
    return {"neg": n < 0, "mag": big(abs(n))}


def rat(x, maxden=10 ** 4):
    """float/int -> [num, den] exact small rational, or None if not representable"""
    f = Fraction(x).limit_denominator(maxden)
    return [f.numerator, f.denominator]
